"""pyvc symbolic interpreter: executes the *real* source text of /repo functions over symbolic values.

Path exploration is by deterministic re-execution with a decision prefix (see vc.Explorer): `branch(cond)`
is the only place where a path forks.  Everything outside the supported subset raises `Unsupported`
(=> the obligation is undecided, never a verdict).
"""
from __future__ import annotations

import ast
import builtins
import dataclasses
import enum
import functools
import hashlib
import inspect
import os
import sys
import types

import z3

from .core import *  # noqa: F401,F403
from .core import _b, _z, _zi

# ---------------------------------------------------------------------------------------------
# Source index: the verified text is the text of the working tree, re-read on every run.


class SourceIndex:
    def __init__(self):
        self.mods: dict[str, tuple[ast.Module, str, dict]] = {}
        self.used: dict[str, dict] = {}  # "file::qualname" -> {file, lines, sha256}

    def load(self, module):
        name = module.__name__
        if name in self.mods:
            return self.mods[name]
        path = getattr(module, "__file__", None)
        if not path or not path.endswith(".py"):
            raise Unsupported(f"no python source for module {name}")
        src = open(path, encoding="utf-8").read()
        tree = ast.parse(src)
        idx: dict[str, ast.AST] = {}

        def walk(body, prefix):
            for n in body:
                if isinstance(n, (ast.FunctionDef, ast.AsyncFunctionDef)):
                    prev = idx.get(prefix + n.name)
                    if isinstance(prev, (ast.FunctionDef, ast.AsyncFunctionDef)) and any(_dec_name(d) in ("overload", "typing.overload") for d in prev.decorator_list):
                        idx[prefix + n.name] = n  # @overload stubs are replaced by the later (real) definition
                    idx.setdefault(prefix + n.name, n)
                    # property setters etc. share the name; keep all
                    idx.setdefault(prefix + n.name + "#all", [])
                    idx[prefix + n.name + "#all"].append(n)
                    walk(n.body, prefix + n.name + ".<locals>.")
                elif isinstance(n, ast.ClassDef):
                    idx[prefix + n.name] = n
                    walk(n.body, prefix + n.name + ".")
                elif isinstance(n, (ast.If, ast.Try, ast.With)):
                    walk(getattr(n, "body", []), prefix)
                    walk(getattr(n, "orelse", []), prefix)

        walk(tree.body, "")
        self.mods[name] = (tree, src, idx)
        self.paths = getattr(self, "paths", {})
        self.paths[name] = path
        return self.mods[name]

    def find(self, module, qualname):
        tree, src, idx = self.load(module)
        return idx.get(qualname)

    def note_used(self, module, qualname, node):
        path = self.paths[module.__name__]
        root = os.environ.get("PYVC_REPO", "/repo").rstrip("/") + "/"
        if path.startswith(root):
            path = path[len(root):]
        key = f"{path}::{qualname}"
        if key not in self.used:
            seg = ast.get_source_segment(self.mods[module.__name__][1], node) or ""
            self.used[key] = {
                "file": path,
                "qualname": qualname,
                "lines": [node.lineno, getattr(node, "end_lineno", node.lineno)],
                "sha256": hashlib.sha256(seg.encode()).hexdigest(),
            }


SRC = SourceIndex()


class IFunc:
    """An interpretable function: AST node + the real module globals it resolves names in."""

    def __init__(self, node, module, qualname, cls=None, closure=None):
        self.node = node
        self.module = module
        self.qualname = qualname
        self.cls = cls
        self.closure = closure
        self.is_lambda = isinstance(node, ast.Lambda)
        self.is_async = isinstance(node, ast.AsyncFunctionDef)
        self.is_gen = (not self.is_lambda) and _has_yield(node)
        self.decorators = [] if self.is_lambda else [_dec_name(d) for d in node.decorator_list]

    @property
    def key(self):
        return f"{self.module.__name__}:{self.qualname}"

    def __repr__(self):
        return f"IFunc({self.key})"


def _dec_name(d):
    if isinstance(d, ast.Call):
        d = d.func
    if isinstance(d, ast.Attribute):
        return d.attr if not isinstance(d.value, ast.Name) else f"{d.value.id}.{d.attr}"
    if isinstance(d, ast.Name):
        return d.id
    return "?"


def _has_yield(fn):
    class V(ast.NodeVisitor):
        found = False

        def visit_Yield(self, n):
            self.found = True

        def visit_YieldFrom(self, n):
            self.found = True

        def visit_FunctionDef(self, n):
            if n is fn:
                self.generic_visit(n)

        visit_AsyncFunctionDef = visit_FunctionDef

        def visit_Lambda(self, n):
            pass

        def visit_ClassDef(self, n):
            pass

    v = V()
    v.visit(fn)
    return v.found


def unwrap_pyfunc(f):
    seen = 0
    while seen < 10:
        if isinstance(f, (staticmethod, classmethod)):
            f = f.__func__
        elif isinstance(f, functools.cached_property):
            f = f.func
        elif isinstance(f, property):
            f = f.fget
        elif hasattr(f, "__wrapped__"):
            f = f.__wrapped__
        else:
            break
        seen += 1
    return f


def ifunc_of_pyfunc(f, cls=None):
    """IFunc for a real Python function object, looked up in the *source file* by qualname."""
    f = unwrap_pyfunc(f)
    if not isinstance(f, types.FunctionType):
        return None
    module = sys.modules.get(f.__module__)
    if module is None:
        return None
    try:
        node = SRC.find(module, f.__qualname__)
    except Unsupported:
        return None
    if isinstance(node, list) or node is None or isinstance(node, ast.ClassDef):
        return None
    if cls is None and "." in f.__qualname__ and "<locals>" not in f.__qualname__:
        # find defining class
        obj = module
        try:
            for part in f.__qualname__.split(".")[:-1]:
                obj = getattr(obj, part)
            cls = obj if isinstance(obj, type) else None
        except AttributeError:
            cls = None
    r = IFunc(node, module, f.__qualname__, cls)
    r.pyfunc = f  # real function object: its closure cells resolve free variables of functions made by a factory
    return r


# ---------------------------------------------------------------------------------------------
# control-flow signals


class ReturnSig(Exception):
    def __init__(self, value):
        self.value = value


class BreakSig(Exception):
    pass


class ContinueSig(Exception):
    pass


class PyExc(Exception):
    """A Python exception raised by the interpreted program. exc: SObj of an exception class."""

    def __init__(self, exc):
        self.exc = exc

    def __repr__(self):
        return f"PyExc({self.exc.cls.__name__})"

    __str__ = __repr__


class PathEnd(Exception):
    """Stop exploring this path (infeasible, invariant-preservation path finished, truncated loop)."""

    def __init__(self, reason, truncated=False):
        self.reason = reason
        self.truncated = truncated


class SGen(SV):
    """A not-yet-run generator: IFunc + bound environment, or a summary thunk."""

    kind = "gen"

    def __init__(self, run):
        self.run = run  # callable(sink) -> return value
        self.consumed = False

    def __repr__(self):
        return "SGen"


class SSuper(SV):
    kind = "super"

    def __init__(self, self_, after_cls):
        self.self_ = self_
        self.after_cls = after_cls


class Frame:
    def __init__(self, func: IFunc | None, locals_, sink=None, self_=None):
        self.func = func
        self.locals = locals_
        self.sink = sink
        self.self_ = self_
        self.loop_ordinal = 0


ALLOWED_DECORATORS = {
    "staticmethod", "classmethod", "property", "expect", "contextmanager", "contextlib.contextmanager",
    "lru_cache", "functools.lru_cache", "cache", "functools.cache", "cached_property", "functools.cached_property",
    "command.command", "dataclass", "overload", "abstractmethod", "abc.abstractmethod", "only", "command.argument",
    "functools.wraps", "wraps", "override", "typing.override", "deprecated",
}


def exc_obj(cls, *args):
    return SObj(cls, {"args": STuple([lift(a) for a in args])})


class Interp:
    """One symbolic execution (one path).  `ex` is the Explorer that owns decisions/path condition."""

    def __init__(self, ex):
        self.ex = ex
        self.frames: list[Frame] = []
        self.depth = 0
        from . import lib

        self.lib = lib

    # -- forking -------------------------------------------------------------------------------
    def branch(self, cond) -> bool:
        return self.ex.branch(_b(cond))

    def truthy(self, v) -> bool:
        v = self.resolve(v)
        if isinstance(v, SObj):
            for name in ("__bool__", "__len__"):
                m = self.find_method(v.cls, name)
                if m is not None:
                    r = self.call_ifunc(m, [v], {})
                    return self.truthy(r)
            bm = self.lib.builtin_method_model(v.cls, "__len__")
            if bm is not None:
                return self.truthy(bm(self, v))
            return True
        if isinstance(v, SGen):
            return True
        t = truth(v)
        c = t.concrete()
        if c is not None:
            return c
        return self.branch(t)

    def resolve(self, v):
        """Resolve a union by forking."""
        while isinstance(v, SUnion):
            chosen = None
            for i, (c, alt) in enumerate(v.alts):
                if i == len(v.alts) - 1:
                    chosen = alt
                    break
                if self.branch(c):
                    chosen = alt
                    break
            v = chosen
        return v

    def raise_(self, cls, *args):
        raise PyExc(exc_obj(cls, *args))

    # -- fresh symbols --------------------------------------------------------------------------
    def fresh(self, kind, hint="v"):
        return self.ex.fresh(kind, hint)

    # -- calling --------------------------------------------------------------------------------
    def call_ifunc(self, f: IFunc, args, kwargs, sink=None):
        """Interpret f on args. Generator functions return an SGen (lazy)."""
        key = f.key
        summ = self.ex.summaries.get(key)
        if summ is not None:
            self.ex.note("summary", key)
            return summ(self.ex.vc, *args, **kwargs)
        for d in f.decorators:
            if d not in ALLOWED_DECORATORS:
                raise Unsupported(f"decorator @{d} on {key}")
        SRC.note_used(f.module, f.qualname, f.node)
        env = self.bind_args(f, args, kwargs)
        self_ = args[0] if args and f.cls is not None and "staticmethod" not in f.decorators else None
        if f.is_async:
            # coroutine: run eagerly at `await`; here we model call+await together (see eval_Await)
            pass
        if f.is_gen:
            if "expect" in f.decorators:
                self.expect_pre(f, args)

            def run(sink, f=f, env=env, self_=self_):
                return self.run_body(f, env, sink, self_)

            return SGen(run)
        if "expect" in f.decorators:
            self.expect_pre(f, args)
        if "only" in f.decorators and not f.is_lambda:
            # flowfilter.only(*types): the wrapper returns False unless isinstance(flow, types) (type guard, interpreted)
            for d in f.node.decorator_list:
                if isinstance(d, ast.Call) and _dec_name(d) == "only":
                    classes = [self.resolve(self.eval_in_module(a, f)) for a in d.args]
                    if len(args) < 2 or not all(isinstance(c, SConst) and isinstance(c.obj, type) for c in classes):
                        raise Unsupported(f"@only guard on {key}")
                    if not any(isa(self.resolve(args[1]), c.obj) for c in classes):
                        return SBool(False)
        if f.is_async:
            # coroutine functions run eagerly when called (calls are immediately awaited in the contracted code); their
            # `await`s on environment awaitables go to the enclosing consumer like yields (suspension points)
            up = sink if sink is not None else (self.frames[-1].sink if self.frames else None)
            return self.run_body(f, env, up, self_)
        return self.run_body(f, env, None, self_)

    def expect_pre(self, f, args):
        # @expect(T...) asserts isinstance(event, T...) at run time: taken as a precondition (listed in evidence)
        self.ex.note("assumed-precondition", f"@expect on {f.key}")

    def run_body(self, f: IFunc, env, sink, self_):
        if self.depth > self.ex.max_depth:
            raise Unsupported(f"call depth > {self.ex.max_depth} at {f.key}")
        fr = Frame(f, env, sink, self_)
        self.frames.append(fr)
        self.depth += 1
        try:
            if f.is_lambda:
                return self.eval(f.node.body)
            try:
                self.exec_block(f.node.body)
            except ReturnSig as r:
                return r.value
            return NONE
        finally:
            self.depth -= 1
            self.frames.pop()

    def bind_args(self, f: IFunc, args, kwargs):
        a = f.node.args
        env = {}
        params = [p.arg for p in a.posonlyargs + a.args]
        args = list(args)
        kwargs = dict(kwargs)
        # defaults are evaluated in the module scope
        defaults = a.defaults
        ndef = len(defaults)
        for i, p in enumerate(params):
            if i < len(args):
                env[p] = args[i]
            elif p in kwargs:
                env[p] = kwargs.pop(p)
            else:
                di = i - (len(params) - ndef)
                if di < 0:
                    raise Unsupported(f"missing argument {p} for {f.key}")
                env[p] = self.eval_in_module(defaults[di], f)
        if len(args) > len(params):
            if a.vararg is None:
                raise Unsupported(f"too many arguments for {f.key}")
            env[a.vararg.arg] = STuple(args[len(params):])
        elif a.vararg is not None:
            env[a.vararg.arg] = STuple([])
        for p, d in zip(a.kwonlyargs, a.kw_defaults):
            if p.arg in kwargs:
                env[p.arg] = kwargs.pop(p.arg)
            elif d is not None:
                env[p.arg] = self.eval_in_module(d, f)
            else:
                raise Unsupported(f"missing kw-only argument {p.arg} for {f.key}")
        if a.kwarg is not None:
            env[a.kwarg.arg] = SDict([(SStr(k), v) for k, v in kwargs.items()])
        elif kwargs:
            raise Unsupported(f"unexpected keyword arguments {list(kwargs)} for {f.key}")
        return env

    def eval_in_module(self, node, f: IFunc):
        fr = Frame(IFunc(ast.Lambda(args=ast.arguments(posonlyargs=[], args=[], kwonlyargs=[], kw_defaults=[], defaults=[]), body=node), f.module, f.qualname + ".<default>", f.cls, f.closure), {})
        self.frames.append(fr)
        try:
            return self.eval(node)
        finally:
            self.frames.pop()

    def consume_gen(self, g: SGen, sink):
        if g.consumed:
            raise Unsupported("generator consumed twice")
        g.consumed = True
        return g.run(sink)

    def collect_gen(self, g: SGen):
        out = []

        def sink(v):
            out.append(v)
            return NONE

        self.consume_gen(g, sink)
        return out

    def iterate(self, v):
        """Concrete list of items for iteration (Unsupported for symbolic-length sequences)."""
        v = self.resolve(v)
        if isinstance(v, (STuple, SList, SSet)):
            return list(v.items)
        if isinstance(v, SDict):
            return [k for k, _ in v.items]
        if isinstance(v, SGen):
            return self.collect_gen(v)
        if isinstance(v, (SBytes, SStr)):
            c = v.concrete()
            if c is not None:
                return [lift(x) for x in c]
            n = simp(z3.Length(v.t))
            if z3.is_int_value(n):
                return [seq_getitem(v, i) for i in range(n.as_long())]
            raise Unsupported("iteration over symbolic-length bytes/str (needs loop invariant)")
        if isinstance(v, SConst):
            if isinstance(v.obj, (range, tuple, list, frozenset, set, dict)) or (isinstance(v.obj, type) and issubclass(v.obj, enum.Enum)):
                return [lift(x) for x in v.obj]
        if isinstance(v, SObj):
            m = self.find_method(v.cls, "__iter__")
            if m is not None:
                r = self.call_ifunc(m, [v], {})
                return self.iterate(r)
            bm = self.lib.builtin_method_model(v.cls, "__iter__")
            if bm is not None:
                return self.iterate(bm(self, v))
        if isinstance(v, (SNoneT, SInt, SBool)):
            self.raise_(TypeError, f"'{'NoneType' if isinstance(v, SNoneT) else v.kind}' object is not iterable")   # exact CPython behaviour
        raise Unsupported(f"iteration over {v!r}")

    # -- class/attribute machinery ---------------------------------------------------------------
    def find_in_mro(self, cls, name, after=None):
        mro = cls.__mro__
        if after is not None:
            mro = mro[mro.index(after) + 1:]
        for k in mro:
            if name in k.__dict__:
                return k, k.__dict__[name]
        return None, None

    def find_method(self, cls, name, after=None):
        """IFunc of method `name` as defined in the source of the first class in the MRO that has it
        (None if not defined by an interpretable class)."""
        k, attr = self.find_in_mro(cls, name, after)
        if k is None or k is object:
            return None
        return self.ifunc_from_classattr(k, name, attr)

    def ifunc_from_classattr(self, k, name, attr, which="get"):
        # the ABCs of collections.abc are defined in _collections_abc.py (which renames itself to "collections.abc")
        module = sys.modules.get("_collections_abc" if k.__module__ == "collections.abc" else k.__module__)
        if module is None:
            return None
        try:
            nodes = SRC.find(module, f"{k.__qualname__}.{name}#all")
        except Unsupported:
            return None
        if nodes:
            node = nodes[0]
            if isinstance(attr, property) and len(nodes) > 1:
                for n in nodes:
                    decs = [_dec_name(d) for d in n.decorator_list]
                    if which == "set" and any(d.endswith(".setter") for d in decs):
                        node = n
                    if which == "get" and ("property" in decs):
                        node = n
            f = IFunc(node, module, f"{k.__qualname__}.{name}", k)
            f.decorators = [d for d in f.decorators if not d.endswith(".setter")]
            return f
        # alias (e.g. `_handle_event = start`) or generated function
        fn = unwrap_pyfunc(attr)
        if isinstance(fn, types.FunctionType):
            return ifunc_of_pyfunc(fn, None)
        return None

    def getattr_(self, obj, name):
        obj = self.resolve(obj)
        if isinstance(obj, SNoneT) and not hasattr(None, name):
            self.raise_(AttributeError, f"'NoneType' object has no attribute '{name}'")   # exact CPython behaviour
        if isinstance(obj, SObj):
            if name in obj.fields:
                return obj.fields[name]
            if name == "__class__":
                return SConst(obj.cls)
            if name == "__dict__":
                view = getattr(self.lib, "obj_dict_view", None)  # write-through view (libx_tools), else a snapshot
                if view is not None:
                    return view(obj)
                return SDict([(SStr(k), v) for k, v in obj.fields.items()])
            k, attr = self.find_in_mro(obj.cls, name)
            if k is None:
                ga = self.find_method(obj.cls, "__getattr__")
                if ga is not None:
                    return self.call_ifunc(ga, [obj, SStr(name)], {})
                if issubclass(obj.cls, BaseException) and name == "args":
                    return STuple([])
                raise Unsupported(f"unknown attribute {obj.cls.__name__}.{name} (not in the scenario's pre-state)")
            return self.bind_classattr(obj, k, name, attr)
        if isinstance(obj, SSuper):
            start = obj.self_.obj if isinstance(obj.self_, SConst) and isinstance(obj.self_.obj, type) else type_of(obj.self_)
            k, attr = self.find_in_mro(start, name, after=obj.after_cls)
            if k is None:
                raise Unsupported(f"super().{name}")
            if k is object or (k.__module__ == "builtins"):
                return SConst(("builtin-method", obj.self_, k, name))
            return self.bind_classattr(obj.self_, k, name, attr)
        if isinstance(obj, SConst):
            o = obj.obj
            if isinstance(o, type):
                k, attr = self.find_in_mro(o, name)
                if k is None:
                    try:
                        return lift(getattr(o, name))
                    except AttributeError:
                        raise Unsupported(f"class attribute {o.__name__}.{name}")
                if isinstance(attr, classmethod):
                    f = self.ifunc_from_classattr(k, name, attr)
                    if f is not None:
                        return SBound(obj, f)
                if isinstance(attr, staticmethod):
                    f = self.ifunc_from_classattr(k, name, attr)
                    if f is not None:
                        return SConst(("ifunc", f))
                if isinstance(attr, types.FunctionType):
                    f = self.ifunc_from_classattr(k, name, attr)
                    if f is not None:
                        return SConst(("ifunc", f))
                return lift(getattr(o, name))
            try:
                return lift(getattr(o, name))
            except AttributeError:
                raise Unsupported(f"attribute {name} of {o!r}")
        if isinstance(obj, SEnum):
            # method defined by the enum class itself in interpretable source (e.g. ErrorCode.http_status_code)
            k, attr = self.find_in_mro(obj.cls, name)
            if k is not None and isinstance(attr, types.FunctionType) and k.__module__ not in ("enum", "builtins"):
                f = self.ifunc_from_classattr(k, name, attr)
                if f is not None:
                    return SBound(obj, f)
            if name in ("name", "value") and not issubclass(obj.cls, enum.Flag):
                # member attribute of a (possibly symbolic) int-valued enum member: case chain over the members
                if name == "value":
                    return SInt(obj.t)
                members = list(obj.cls)
                if obj.concrete() is not None and obj.concrete() not in [m.value for m in members]:
                    raise Unsupported(f"{obj.cls.__name__}({obj.concrete()}) is not a member")
                r = z3.StringVal(members[-1].name)
                for m in reversed(members[:-1]):
                    r = z3.If(obj.t == m.value, z3.StringVal(m.name), r)
                return SStr(simp(r))
        # builtin-typed values: methods handled by lib; a name the real type does not have is an AttributeError, as in CPython
        nt = type_of(obj)
        if nt is not object and not hasattr(nt, name) and (type(obj), name) not in self.lib.METHODS:  # (modelled methods, e.g. memoryview.tobytes on the bytes model)
            self.raise_(AttributeError, f"'{nt.__name__}' object has no attribute '{name}'")
        return SConst(("method", obj, name))

    def bind_classattr(self, obj, k, name, attr):
        if isinstance(attr, (property, functools.cached_property)):
            f = self.ifunc_from_classattr(k, name, attr, "get")
            if f is None:
                raise Unsupported(f"property {k.__name__}.{name} without source")
            f.decorators = [d for d in f.decorators if d not in ("property", "cached_property", "functools.cached_property")]
            v = self.call_ifunc(f, [obj], {})
            if isinstance(attr, functools.cached_property):
                obj.fields[name] = v
            return v
        if isinstance(attr, staticmethod):
            f = self.ifunc_from_classattr(k, name, attr)
            return SConst(("ifunc", f)) if f else lift(attr.__func__)
        if isinstance(attr, classmethod):
            f = self.ifunc_from_classattr(k, name, attr)
            if f is None:
                raise Unsupported(f"classmethod {k.__name__}.{name}")
            return SBound(SConst(type_of(obj)), f)
        if isinstance(attr, types.FunctionType) or hasattr(attr, "__wrapped__"):
            f = self.ifunc_from_classattr(k, name, attr)
            if f is None:
                if k.__module__ == "builtins" or not getattr(sys.modules.get(k.__module__), "__file__", "").endswith(".py"):
                    return SConst(("builtin-method", obj, k, name))
                raise Unsupported(f"method {k.__name__}.{name} has no source")
            return SBound(obj, f)
        if isinstance(attr, (types.MethodDescriptorType, types.WrapperDescriptorType, types.BuiltinFunctionType)):
            return SConst(("builtin-method", obj, k, name))
        if isinstance(attr, types.MemberDescriptorType):
            raise Unsupported(f"slot {k.__name__}.{name} not in pre-state")
        if isinstance(attr, dataclasses.Field):
            raise Unsupported(f"dataclass field {name} unset")
        v = lift(attr)
        if isinstance(v, (SList, SDict, SSet)):
            # class-level mutable default: share per path through a cache on the explorer
            cache = self.ex.class_mutables
            v = cache.setdefault((k, name), v)
        return v

    def setattr_(self, obj, name, value):
        obj = self.resolve(obj)
        if isinstance(obj, SObj):
            k, attr = self.find_in_mro(obj.cls, name)
            if isinstance(attr, property):
                f = self.ifunc_from_classattr(k, name, attr, "set")
                if f is None or attr.fset is None:
                    raise Unsupported(f"property setter {k.__name__}.{name}")
                self.call_ifunc(f, [obj, value], {})
                return
            sa = self.find_method(obj.cls, "__setattr__")
            if sa is not None and not self.ex.raw_setattr:
                self.call_ifunc(sa, [obj, SStr(name), value], {})
                return
            obj.fields[name] = value
            return
        if isinstance(obj, SNoneT):
            self.raise_(AttributeError, f"'NoneType' object has no attribute '{name}'")   # exact CPython behaviour
        raise Unsupported(f"attribute store on {obj!r}")

    def instantiate(self, cls, args, kwargs):
        key = f"{cls.__module__}:{cls.__qualname__}"
        summ = self.ex.summaries.get(key)
        if summ is not None:
            self.ex.note("summary", key)
            return summ(self.ex.vc, *args, **kwargs)
        m = self.lib.CLASS_MODELS.get(cls)
        if m is not None:
            return m(self, *args, **kwargs)
        if isinstance(cls, type) and issubclass(cls, BaseException):
            init = self.find_method(cls, "__init__")
            o = SObj(cls, {"args": STuple(list(args))})
            if init is not None:
                self.call_ifunc(init, [o] + list(args), kwargs)
            return o
        if isinstance(cls, type) and issubclass(cls, enum.Enum):
            v = self.resolve(args[0])
            if isinstance(v, SInt):
                vcn = v.concrete()
                if vcn is not None and not issubclass(cls, enum.Flag) and vcn not in [m.value for m in cls]:
                    self.raise_(ValueError, f"{vcn} is not a valid {cls.__name__}")  # exact for a concrete non-member value
                self.ex.note("assumed", f"{cls.__name__}(int) yields a member with that value (Flag composition / valid member)")
                return SEnum(cls, v.t)
            if isinstance(v, SEnum) and v.cls is cls:
                return v  # Enum(member) is the member itself
            raise Unsupported(f"enum construction {cls.__name__}({v!r})")
        if isinstance(cls, type) and issubclass(cls, tuple) and hasattr(cls, "_fields"):
            # typing.NamedTuple / collections.namedtuple
            names = list(cls._fields)
            vals = {}
            for n, a in zip(names, args):
                vals[n] = a
            for n in names[len(args):]:
                if n in kwargs:
                    vals[n] = kwargs[n]
                elif n in getattr(cls, "_field_defaults", {}):
                    vals[n] = lift(cls._field_defaults[n])
                else:
                    self.raise_(TypeError, f"missing argument {n}")
            o = SObj(cls, dict(vals))
            o.fields["_items"] = STuple([vals[n] for n in names])
            return o
        new = self.find_method(cls, "__new__")
        if new is not None:
            new.decorators = [d for d in new.decorators if d != "staticmethod"]
            o = self.resolve(self.call_ifunc(new, [SConst(cls)] + list(args), kwargs))
            if not (isinstance(o, SObj) and issubclass(o.cls, cls)):
                return o
        else:
            o = SObj(cls, {})
        init = self.find_method(cls, "__init__")
        if init is not None:
            self.call_ifunc(init, [o] + list(args), kwargs)
        elif dataclasses.is_dataclass(cls):
            self.dataclass_init(o, cls, args, kwargs)
        elif args or kwargs:
            k, attr = self.find_in_mro(cls, "__init__")
            raise Unsupported(f"constructor of {cls.__name__} (from {k})")
        return o

    def dataclass_init(self, o, cls, args, kwargs):
        fields = [f for f in dataclasses.fields(cls) if f.init]
        args = list(args)
        kwargs = dict(kwargs)
        for i, f in enumerate(fields):
            if i < len(args):
                v = args[i]
            elif f.name in kwargs:
                v = kwargs.pop(f.name)
            elif f.default is not dataclasses.MISSING:
                v = lift(f.default)
            elif f.default_factory is not dataclasses.MISSING:
                df = f.default_factory
                if df in (list, dict, set, tuple):
                    v = lift(df())
                else:
                    v = self.call_value(lift(df), [], {})
            else:
                raise Unsupported(f"dataclass {cls.__name__} missing field {f.name}")
            o.fields[f.name] = v
        for f in dataclasses.fields(cls):
            if not f.init:
                if f.default is not dataclasses.MISSING:
                    o.fields[f.name] = lift(f.default)
                elif f.default_factory is not dataclasses.MISSING:
                    df = f.default_factory
                    o.fields[f.name] = lift(df()) if df in (list, dict, set, tuple) else self.call_value(lift(df), [], {})
        post = self.find_method(cls, "__post_init__")
        if post is not None:
            self.call_ifunc(post, [o], {})

    def call_value(self, fv, args, kwargs):
        fv = self.resolve(fv)
        if isinstance(fv, SBound):
            return self.call_ifunc(fv.func, [fv.self_] + list(args), kwargs)
        if isinstance(fv, SConst):
            o = fv.obj
            if isinstance(o, tuple) and o and o[0] == "ifunc":
                return self.call_ifunc(o[1], list(args), kwargs)
            if isinstance(o, tuple) and o and o[0] == "method":
                return self.lib.call_method(self, o[1], o[2], list(args), kwargs)
            if isinstance(o, tuple) and o and o[0] == "builtin-method":
                return self.lib.call_builtin_method(self, o[1], o[2], o[3], list(args), kwargs)
            if isinstance(o, IFunc):
                return self.call_ifunc(o, list(args), kwargs)
            if isinstance(o, type):
                m = self.lib.lookup_function(o)
                if m is not None:
                    self.ex.note("lib", m.__name__)
                    return m(self, *args, **kwargs)
                return self.instantiate(o, args, kwargs)
            if isinstance(o, functools.partial):
                return self.call_value(lift(o.func), [lift(a) for a in o.args] + list(args), {**{k: lift(v) for k, v in o.keywords.items()}, **kwargs})
            if isinstance(o, types.MethodType):
                return self.call_value(lift(o.__func__), [lift(o.__self__)] + list(args), kwargs)
            if isinstance(o, types.BuiltinMethodType) and isinstance(getattr(o, "__self__", None), type):
                # classmethod of a builtin/C class (datetime.fromisoformat, ...): model registered with @builtin_method(cls, name)
                bm = self.lib.BUILTIN_METHODS.get((o.__self__, o.__name__))
                if bm is not None:
                    self.ex.note("lib", f"{o.__self__.__name__}.{o.__name__}")
                    return bm(self, lift(o.__self__), *args, **kwargs)
            m = self.lib.lookup_function(o)
            name = f"{getattr(o, '__module__', '?')}:{getattr(o, '__qualname__', getattr(o, '__name__', '?'))}"
            summ = self.ex.summaries.get(name)
            if summ is not None:
                self.ex.note("summary", name)
                return summ(self.ex.vc, *args, **kwargs)
            if m is not None:
                self.ex.note("lib", m.__name__)
                return m(self, *args, **kwargs)
            f = ifunc_of_pyfunc(o)
            if f is not None:
                path = SRC.paths.get(f.module.__name__, "")
                if not any(path.startswith(r) for r in self.ex.inline_roots):
                    raise Unsupported(f"call to {name} outside the inline roots (needs a library contract)")
                return self.call_ifunc(f, list(args), kwargs)
            raise Unsupported(f"call to {name} (no source, no library contract)")
        if isinstance(fv, SObj):
            m = self.find_method(fv.cls, "__call__")
            if m is not None:
                return self.call_ifunc(m, [fv] + list(args), kwargs)
            bm = self.lib.builtin_method_model(fv.cls, "__call__")
            if bm is not None:
                return bm(self, fv, *args, **kwargs)
        raise Unsupported(f"call of {fv!r}")

    # -- statements -----------------------------------------------------------------------------
    def exec_block(self, stmts):
        for s in stmts:
            self.exec(s)

    def exec(self, s):
        m = getattr(self, "exec_" + type(s).__name__, None)
        if m is None:
            raise Unsupported(f"statement {type(s).__name__} at line {s.lineno}")
        self.ex.steps += 1
        if self.ex.steps > self.ex.max_steps:
            raise PathEnd("step budget", truncated=True)
        return m(s)

    def exec_Expr(self, s):
        if isinstance(s.value, ast.Constant):
            return
        v = s.value
        if (isinstance(v, ast.Call) and isinstance(v.func, ast.Attribute) and v.func.attr in ("extend", "clear")
                and isinstance(v.func.value, (ast.Name, ast.Attribute)) and not v.keywords):
            # bytearray is modelled as an immutable bytes value (see lib.f_bytearray): the in-place methods
            # `buf.extend(x)` / `buf.clear()` used as statements rebind the name/attribute (no aliasing of the buffer)
            recv = self.resolve(self.eval(v.func.value))
            if isinstance(recv, SBytes) and recv.kind != "bytearray":  # libx_dns.SByteArray is mutable in place (aliasing kept)
                self.ex.note("assumed", "bytearray modelled as bytes: buf.extend(x)/buf.clear() rebind buf (no aliasing of the buffer)")
                if v.func.attr == "clear" and not v.args:
                    self.assign(v.func.value, SBytes(b""))
                    return
                if v.func.attr == "extend" and len(v.args) == 1:
                    x = self.resolve(self.eval(v.args[0]))
                    if not isinstance(x, SBytes):
                        x = self.resolve(self.lib.f_bytes(self, x))
                    self.assign(v.func.value, SBytes(simp(z3.Concat(recv.t, x.t))))
                    return
        self.eval(s.value)

    def exec_Pass(self, s):
        pass

    def exec_Global(self, s):
        self.frames[-1].locals.setdefault("$globals", set()).update(s.names)

    def exec_Nonlocal(self, s):
        self.frames[-1].locals.setdefault("$nonlocals", set()).update(s.names)

    def exec_Import(self, s):
        import importlib

        for a in s.names:
            mod = importlib.import_module(a.name)
            if a.asname:
                self.store_name(a.asname, SConst(mod))
            else:
                self.store_name(a.name.split(".")[0], SConst(importlib.import_module(a.name.split(".")[0])))

    def exec_ImportFrom(self, s):
        import importlib

        mod = importlib.import_module(("." * s.level) + (s.module or ""), self.frames[-1].func.module.__package__ if s.level else None)
        for a in s.names:
            self.store_name(a.asname or a.name, lift(getattr(mod, a.name)))

    def exec_Return(self, s):
        raise ReturnSig(self.eval(s.value) if s.value is not None else NONE)

    def exec_Assign(self, s):
        v = self.eval(s.value)
        for t in s.targets:
            self.assign(t, v)

    def exec_AnnAssign(self, s):
        if s.value is not None:
            self.assign(s.target, self.eval(s.value))

    def exec_AugAssign(self, s):
        load = _as_load(s.target)
        cur = self.eval(load)
        rhs = self.eval(s.value)
        cur_r = self.resolve(cur)
        if isinstance(cur_r, SList) and isinstance(s.op, ast.Add):
            cur_r.items.extend(self.iterate(rhs))
            return
        if isinstance(cur_r, SObj) and isinstance(s.op, ast.Add):
            m = self.find_method(cur_r.cls, "__iadd__")
            if m is not None:
                self.assign(s.target, self.call_ifunc(m, [cur_r, rhs], {}))
                return
        self.assign(s.target, self.binop(s.op, cur_r, rhs))

    def exec_Delete(self, s):
        for t in s.targets:
            if isinstance(t, ast.Attribute):
                o = self.resolve(self.eval(t.value))
                if isinstance(o, SObj) and t.attr in o.fields:
                    del o.fields[t.attr]
                else:
                    raise Unsupported("del of unknown attribute")
            elif isinstance(t, ast.Name):
                self.frames[-1].locals.pop(t.id, None)
            elif isinstance(t, ast.Subscript):
                o = self.resolve(self.eval(t.value))
                self.lib.delitem(self, o, t.slice)
            else:
                raise Unsupported("del target")

    def exec_If(self, s):
        if self.truthy(self.eval(s.test)):
            self.exec_block(s.body)
        else:
            self.exec_block(s.orelse)

    def exec_Assert(self, s):
        ok = self.truthy(self.eval(s.test))
        if not ok:
            if self.ex.asserts_are_obligations:
                self.raise_(AssertionError)
            self.ex.note("assumed-assert", f"{self.frames[-1].func.key}:{s.lineno}")
            raise PathEnd("assert assumed")

    def exec_Raise(self, s):
        if s.exc is None:
            cur = self.frames[-1].locals.get("$handling")
            if cur is None:
                raise Unsupported("bare raise outside handler")
            raise PyExc(cur)
        e = self.resolve(self.eval(s.exc))
        if isinstance(e, SConst) and isinstance(e.obj, type):
            e = self.instantiate(e.obj, [], {})
        if not isinstance(e, SObj):
            raise Unsupported(f"raise of {e!r}")
        if s.cause is not None:
            e.fields["__cause__"] = self.eval(s.cause)
        raise PyExc(e)

    def exec_Try(self, s):
        try:
            try:
                self.exec_block(s.body)
            except PyExc as pe:
                handled = False
                for h in s.handlers:
                    if self.exc_matches(pe.exc, h.type):
                        handled = True
                        if h.name:
                            self.store_name(h.name, pe.exc)
                        prev = self.frames[-1].locals.get("$handling")
                        self.frames[-1].locals["$handling"] = pe.exc
                        try:
                            self.exec_block(h.body)
                        finally:
                            if prev is None:
                                self.frames[-1].locals.pop("$handling", None)
                            else:
                                self.frames[-1].locals["$handling"] = prev
                        break
                if not handled:
                    raise
            else:
                self.exec_block(s.orelse)
        finally:
            # `finally` also runs for ReturnSig/BreakSig/PyExc; PathEnd/Unsupported abort the path anyway
            et = sys.exc_info()[0]
            if s.finalbody and (et is None or not issubclass(et, (PathEnd, Unsupported))):
                self.exec_block(s.finalbody)

    def exc_matches(self, exc, tnode):
        if tnode is None:
            return True
        t = self.resolve(self.eval(tnode))
        classes = []
        if isinstance(t, STuple):
            classes = [self.resolve(x).obj for x in t.items]
        elif isinstance(t, SConst):
            classes = [t.obj] if not isinstance(t.obj, tuple) else list(t.obj)
        else:
            raise Unsupported("except clause type")
        return any(issubclass(exc.cls, c) for c in classes)

    def exec_With(self, s):
        exits = []
        for item in s.items:
            cm = self.resolve(self.eval(item.context_expr))
            if isinstance(cm, SGen) and len(s.items) == 1:
                return self.exec_with_genctx(s, item, cm)
            val, exit_ = self.lib.enter_context(self, cm)
            exits.append(exit_)
            if item.optional_vars is not None:
                self.assign(item.optional_vars, val)
        try:
            self.exec_block(s.body)
        except PyExc as pe:
            swallowed = False
            for e in reversed(exits):
                if e(pe.exc):
                    swallowed = True
                    break
            if not swallowed:
                raise
            return
        except (ReturnSig, BreakSig, ContinueSig):
            for e in reversed(exits):
                e(None)
            raise
        for e in reversed(exits):
            e(None)

    exec_AsyncWith = exec_With

    def exec_with_genctx(self, s, item, g):
        """`with gen_cm() [as x]: body` for a @contextmanager generator function of the code under contract.
        Generators run eagerly, so the with-body is executed *inside* the generator's single yield (continuation style):
        an exception of the body surfaces at the yield exactly like contextmanager's gen.throw(); if the generator handles it
        and finishes, the with-statement swallows it; return/break/continue of the body resume the generator normally
        (as __exit__(None, None, None) does) and are re-raised afterwards."""
        fr = self.frames[-1]
        state = {"n": 0, "sig": None}

        def sink(v):
            state["n"] += 1
            if state["n"] > 1:
                self.raise_(RuntimeError, "generator didn't stop")
            self.frames.append(fr)
            try:
                if item.optional_vars is not None:
                    self.assign(item.optional_vars, v)
                self.exec_block(s.body)
            except (ReturnSig, BreakSig, ContinueSig) as sig:
                state["sig"] = sig
            finally:
                self.frames.pop()
            return NONE

        self.consume_gen(g, sink)
        if state["n"] == 0:
            self.raise_(RuntimeError, "generator didn't yield")
        if state["sig"] is not None:
            raise state["sig"]

    def exec_While(self, s):
        fr = self.frames[-1]
        fr.loop_ordinal += 1
        inv = self.ex.loop_invariant(fr.func, fr.loop_ordinal)
        if inv is not None:
            return self.exec_loop_with_invariant(s, inv, None)
        n = 0
        while True:
            if not self.truthy(self.eval(s.test)):
                self.exec_block(s.orelse)
                return
            n += 1
            if n > self.ex.max_unroll:
                self.ex.note("bounded", f"while loop in {fr.func.key} line {s.lineno} unrolled {self.ex.max_unroll}x")
                raise PathEnd("unroll bound", truncated=True)
            try:
                self.exec_block(s.body)
            except BreakSig:
                return
            except ContinueSig:
                continue

    def exec_For(self, s):
        fr = self.frames[-1]
        fr.loop_ordinal += 1
        it = self.resolve(self.eval(s.iter))
        inv = self.ex.loop_invariant(fr.func, fr.loop_ordinal)
        if inv is not None:
            return self.exec_loop_with_invariant(s, inv, it)
        if isinstance(it, SGen) and getattr(self.ex, "lazy_generators", False):
            return self.exec_for_lazy_gen(s, it)
        if isinstance(it, SSeq) or (isinstance(it, (SBytes, SStr)) and it.concrete() is None and not z3.is_int_value(simp(z3.Length(it.t)))):
            # symbolic length: bounded unrolling (labelled)
            n = 0
            while True:
                if not self.branch(SBool(z3.Length(it.t) > n)):
                    self.exec_block(s.orelse)
                    return
                if n >= self.ex.max_unroll:
                    self.ex.note("bounded", f"for loop in {fr.func.key} line {s.lineno} unrolled {self.ex.max_unroll}x")
                    raise PathEnd("unroll bound", truncated=True)
                x = self.lib.seq_elem(self, it, z3.IntVal(n)) if isinstance(it, SSeq) else seq_getitem(it, n)
                n += 1
                self.assign(s.target, x)
                try:
                    self.exec_block(s.body)
                except BreakSig:
                    return
                except ContinueSig:
                    continue
        items = self.iterate(it)
        for x in items:
            self.assign(s.target, x)
            try:
                self.exec_block(s.body)
            except BreakSig:
                return
            except ContinueSig:
                continue
        self.exec_block(s.orelse)

    exec_AsyncFor = exec_For

    def exec_for_lazy_gen(self, s, g):
        """`for x in gen(): body` with the generator advanced lazily (scenario option lazy_generators=True): the loop body
        runs at each yield, and break/return/an exception of the body abandons the generator at that yield (its code after
        the yield never runs) -- needed where fully exhausting the generator would raise (tls.handshake_record_contents)."""
        fr = self.frames[-1]

        class _Abandon(Exception):
            def __init__(self, sig):
                self.sig = sig

        def sink(v):
            self.frames.append(fr)
            try:
                self.assign(s.target, v)
                try:
                    self.exec_block(s.body)
                except ContinueSig:
                    pass
                except (BreakSig, ReturnSig, PyExc) as sig:
                    raise _Abandon(sig)
            finally:
                self.frames.pop()
            return NONE

        depth, nframes = self.depth, len(self.frames)
        try:
            self.consume_gen(g, sink)
        except _Abandon as ab:
            self.depth = depth
            del self.frames[nframes:]
            if isinstance(ab.sig, BreakSig):
                return
            raise ab.sig
        self.exec_block(s.orelse)

    def exec_loop_with_invariant(self, s, inv, it):
        """Inductive loop handling: check inv on entry; havoc the loop's assigned locals; assume inv;
        then either (a) run one arbitrary iteration and check inv again (path ends), or (b) leave the loop."""
        fr = self.frames[-1]
        name = f"{fr.func.qualname}/loop{fr.loop_ordinal}"
        idx = None
        if it is not None:
            if not isinstance(it, (SSeq, SBytes, SStr)):
                raise Unsupported("invariant on a for-loop over a non-sequence")
            idx = SInt(0)
        self.ex.obligation(f"{name}/inv.entry", inv(self, fr.locals, idx))
        self.ex.used_invariant = True  # states after the havoc need not be reachable: no native conformance sample for this path
        # havoc
        # inv.pinned = {local name: value}: locals the invariant fixes to a constant (e.g. `cancelled is None`); havoc + assume(x == c)
        # is the assignment x := c, so they are set instead of havocked; that the loop really keeps them is checked at entry/preserve
        pinned = getattr(inv, "pinned", None) or {}
        for v, pv in pinned.items():
            if v in fr.locals:
                self.ex.obligation(f"{name}/inv.entry.pinned.{v}", self.lib.py_eq(self, self.resolve(fr.locals[v]), pv))
        for v in sorted(_assigned_names(s)):
            if v in fr.locals and v in pinned:
                fr.locals[v] = pinned[v]
            elif v in fr.locals:
                fr.locals[v] = self.havoc_like(fr.locals[v], v)
        if hasattr(inv, "havoc"):
            inv.havoc(self, fr.locals)  # scenario-defined havoc of heap / ghost state modified by the loop
        for h in inv.havoc_fields if hasattr(inv, "havoc_fields") else []:
            obj, field = h(self, fr.locals)
            obj.fields[field] = self.havoc_like(obj.fields[field], field)
        if it is not None:
            idx = self.fresh("int", "i")
            self.ex.assume(z3.And(idx.t >= 0, idx.t <= z3.Length(it.t)))
        self.ex.assume(_b(inv(self, fr.locals, idx)))
        if it is None:
            go = self.truthy(self.eval(s.test))
        else:
            go = self.branch(SBool(idx.t < z3.Length(it.t)))
        if go:
            if it is not None:
                self.assign(s.target, self.lib.seq_elem(self, it, idx.t) if isinstance(it, SSeq) else seq_getitem(it, idx))
            try:
                self.exec_block(s.body)
            except BreakSig:
                return
            except ContinueSig:
                pass
            nxt = None if idx is None else SInt(idx.t + 1)
            self.ex.obligation(f"{name}/inv.preserve", inv(self, fr.locals, nxt))
            for v, pv in pinned.items():
                if v in fr.locals:
                    self.ex.obligation(f"{name}/inv.preserve.pinned.{v}", self.lib.py_eq(self, self.resolve(fr.locals[v]), pv))
            raise PathEnd("loop iteration checked")
        self.exec_block(s.orelse)

    def havoc_like(self, v, hint):
        if isinstance(v, SInt):
            return self.fresh("int", hint)
        if isinstance(v, SBool):
            return self.fresh("bool", hint)
        if isinstance(v, SBytes):
            return self.fresh("bytes", hint)
        if isinstance(v, SStr):
            return self.fresh("str", hint)
        if isinstance(v, SSeq):
            return self.fresh("seq:" + v.elem, hint)
        if isinstance(v, SEnum):
            return self.ex.fresh_enum(v.cls, hint)
        if isinstance(v, STuple):
            return STuple([self.havoc_like(x, hint) for x in v.items])
        raise Unsupported(f"cannot havoc loop variable {hint} of kind {v.kind}")

    def exec_Match(self, s):
        subj = self.resolve(self.eval(s.subject))
        for case in s.cases:
            ok = self.match_pattern(case.pattern, subj)
            if ok and (case.guard is None or self.truthy(self.eval(case.guard))):
                self.exec_block(case.body)
                return

    def match_pattern(self, p, subj):
        if isinstance(p, ast.MatchValue):
            return self.truthy(self.compare_op(ast.Eq(), subj, self.eval(p.value)))
        if isinstance(p, ast.MatchSingleton):
            return self.truthy(self.compare_op(ast.Is(), subj, lift(p.value)))
        if isinstance(p, ast.MatchOr):
            return any(self.match_pattern(q, subj) for q in p.patterns)
        if isinstance(p, ast.MatchAs):
            if p.pattern is not None and not self.match_pattern(p.pattern, subj):
                return False
            if p.name:
                self.store_name(p.name, subj)
            return True
        if isinstance(p, ast.MatchClass):
            c = self.resolve(self.eval(p.cls))
            if not isinstance(c, SConst) or not isinstance(c.obj, type):
                raise Unsupported("match class")
            if not isa(subj, c.obj):
                return False
            if p.patterns:
                raise Unsupported("positional class patterns")
            for k, q in zip(p.kwd_attrs, p.kwd_patterns):
                if not self.match_pattern(q, self.getattr_(subj, k)):
                    return False
            return True
        if isinstance(p, ast.MatchSequence):
            if not isinstance(subj, (STuple, SList)):
                return False
            if any(isinstance(q, ast.MatchStar) for q in p.patterns):
                raise Unsupported("star pattern")
            if len(p.patterns) != len(subj.items):
                return False
            return all(self.match_pattern(q, x) for q, x in zip(p.patterns, subj.items))
        raise Unsupported(f"pattern {type(p).__name__}")

    def exec_FunctionDef(self, s):
        fr = self.frames[-1]
        f = IFunc(s, fr.func.module, fr.func.qualname + ".<locals>." + s.name, None, closure=fr)
        self.store_name(s.name, SConst(("ifunc", f)))

    exec_AsyncFunctionDef = exec_FunctionDef

    def exec_Break(self, s):
        raise BreakSig()

    def exec_Continue(self, s):
        raise ContinueSig()

    # -- assignment -----------------------------------------------------------------------------
    def store_name(self, name, v):
        fr = self.frames[-1]
        if name in fr.locals.get("$nonlocals", ()):
            c = fr.func.closure
            while c is not None:
                if name in c.locals:
                    c.locals[name] = v
                    return
                c = c.func.closure if c.func else None
            raise Unsupported(f"nonlocal {name} not found")
        if name in fr.locals.get("$globals", ()):
            self.ex.module_globals[(fr.func.module.__name__, name)] = v
            return
        fr.locals[name] = v

    def assign(self, t, v):
        if isinstance(t, ast.Name):
            self.store_name(t.id, v)
        elif isinstance(t, ast.Attribute):
            self.setattr_(self.eval(t.value), self.mangle(t.attr), v)
        elif isinstance(t, (ast.Tuple, ast.List)):
            v = self.resolve(v)
            if any(isinstance(e, ast.Starred) for e in t.elts):
                items = self.iterate(v)
                si = [i for i, e in enumerate(t.elts) if isinstance(e, ast.Starred)][0]
                after = len(t.elts) - si - 1
                if len(items) < len(t.elts) - 1:
                    self.raise_(ValueError, "not enough values to unpack")
                for e, x in zip(t.elts[:si], items[:si]):
                    self.assign(e, x)
                self.assign(t.elts[si].value, SList(items[si:len(items) - after]))
                for e, x in zip(t.elts[si + 1:], items[len(items) - after:]):
                    self.assign(e, x)
                return
            items = self.lib.unpack(self, v, len(t.elts))
            for e, x in zip(t.elts, items):
                self.assign(e, x)
        elif isinstance(t, ast.Subscript):
            o = self.resolve(self.eval(t.value))
            self.lib.setitem(self, o, t.slice, v)
        else:
            raise Unsupported(f"assignment target {type(t).__name__}")

    # -- expressions ----------------------------------------------------------------------------
    def eval(self, e):
        m = getattr(self, "eval_" + type(e).__name__, None)
        if m is None:
            raise Unsupported(f"expression {type(e).__name__} at line {getattr(e, 'lineno', '?')}")
        return m(e)

    def eval_Constant(self, e):
        if e.value is Ellipsis:
            return SConst(Ellipsis)
        return lift(e.value)

    def eval_Name(self, e):
        name = e.id
        fr = self.frames[-1]
        if name in fr.locals and name not in fr.locals.get("$globals", ()):
            return fr.locals[name]
        c = fr.func.closure if fr.func else None
        while c is not None:
            if name in c.locals:
                return c.locals[name]
            c = c.func.closure if c.func else None
        pf = getattr(fr.func, "pyfunc", None) if fr.func else None
        if pf is not None and pf.__closure__ and name in pf.__code__.co_freevars:
            # free variable of a real function object created by a factory (e.g. cryptography's _make_sequence_methods)
            return lift(pf.__closure__[pf.__code__.co_freevars.index(name)].cell_contents)
        mod = fr.func.module
        mg = self.ex.module_globals.get((mod.__name__, name))
        if mg is not None:
            return mg
        if name in mod.__dict__:
            v = mod.__dict__[name]
            if isinstance(v, (list, dict, set)) and not isinstance(v, SV):
                # module-level mutable state: one symbolic copy per path
                return self.ex.module_globals.setdefault((mod.__name__, name), lift(v))
            if isinstance(v, types.FunctionType):
                f = ifunc_of_pyfunc(v)
                if f is not None and f.module is mod and getattr(unwrap_pyfunc(v), "__qualname__", "") == name:
                    return SConst(v)
            return lift(v)
        if hasattr(builtins, name):
            return SConst(getattr(builtins, name))
        if name.startswith("__") and not name.endswith("__") and fr.func is not None and fr.func.cls is not None and fr.func.qualname.endswith(".<default>"):
            # parameter default evaluated in the class body scope: `def pop(self, key, default=__marker)` (class-private name)
            mn = "_" + fr.func.cls.__name__.lstrip("_") + name
            for k in fr.func.cls.__mro__:
                if mn in k.__dict__:
                    return lift(k.__dict__[mn])
        raise Unsupported(f"unresolved name {name}")

    def mangle(self, attr):
        """Python's private-name mangling inside class bodies (self.__x -> self._Class__x)."""
        if attr.startswith("__") and not attr.endswith("__"):
            fr = self.frames[-1]
            f = fr.func
            while f is not None and f.cls is None and f.closure is not None:
                f = f.closure.func
            if f is not None and f.cls is not None:
                return "_" + f.cls.__name__.lstrip("_") + attr
        return attr

    def eval_Attribute(self, e):
        return self.getattr_(self.eval(e.value), self.mangle(e.attr))

    def eval_Tuple(self, e):
        return STuple(self.eval_elts(e.elts))

    def eval_List(self, e):
        return SList(self.eval_elts(e.elts))

    def eval_Set(self, e):
        return SSet(self.eval_elts(e.elts))

    def eval_elts(self, elts):
        out = []
        for x in elts:
            if isinstance(x, ast.Starred):
                out.extend(self.iterate(self.eval(x.value)))
            else:
                out.append(self.eval(x))
        return out

    def eval_Dict(self, e):
        d = SDict()
        for k, v in zip(e.keys, e.values):
            if k is None:
                src = self.resolve(self.eval(v))
                if not isinstance(src, SDict):
                    raise Unsupported("** of non-dict")
                for kk, vv in src.items:
                    self.lib.dict_set(self, d, kk, vv)
            else:
                self.lib.dict_set(self, d, self.eval(k), self.eval(v))
        return d

    def eval_JoinedStr(self, e):
        parts = []
        for v in e.values:
            if isinstance(v, ast.Constant):
                parts.append(SStr(v.value))
            else:
                val = self.eval(v.value)
                parts.append(self.lib.format_value(self, val, v.conversion, v.format_spec))
        r = SStr("")
        for p in parts:
            r = r + p
        return SStr(simp(r.t))

    def eval_IfExp(self, e):
        return self.eval(e.body) if self.truthy(self.eval(e.test)) else self.eval(e.orelse)

    def eval_BoolOp(self, e):
        v = None
        for i, x in enumerate(e.values):
            v = self.eval(x)
            if i == len(e.values) - 1:
                return v
            t = self.truthy(v)
            if isinstance(e.op, ast.And) and not t:
                return v
            if isinstance(e.op, ast.Or) and t:
                return v
        return v

    def eval_UnaryOp(self, e):
        v = self.resolve(self.eval(e.operand))
        if isinstance(e.op, ast.Not):
            return SBool(not self.truthy(v))
        if isinstance(e.op, ast.USub):
            if isinstance(v, SInt):
                return SInt(-v.t)
            if isinstance(v, SFloat):
                return SFloat(-v.t)
        if isinstance(e.op, ast.UAdd) and isinstance(v, SInt):
            return v
        if isinstance(e.op, ast.Invert) and isinstance(v, SInt):
            return SInt(-v.t - 1)
        if isinstance(e.op, ast.Invert) and isinstance(v, SEnum):
            return self.lib.flag_invert(self, v)
        raise Unsupported(f"unary {type(e.op).__name__} on {v!r}")

    def eval_BinOp(self, e):
        return self.binop(e.op, self.resolve(self.eval(e.left)), self.resolve(self.eval(e.right)))

    def binop(self, op, a, b):
        return self.lib.binop(self, op, self.resolve(a), self.resolve(b))

    def eval_Compare(self, e):
        left = self.eval(e.left)
        result = None
        for op, rn in zip(e.ops, e.comparators):
            right = self.eval(rn)
            r = self.compare_op(op, self.resolve(left), self.resolve(right))
            if len(e.ops) == 1:
                return r
            if not self.truthy(r):
                return SBool(False)
            result = r
            left = right
        return SBool(True)

    def compare_op(self, op, a, b):
        return self.lib.compare(self, op, a, b)

    def eval_Call(self, e):
        # zero-arg super()
        if isinstance(e.func, ast.Name) and e.func.id == "super" and not e.args:
            fr = self.frames[-1]
            if fr.func.cls is None or fr.self_ is None:
                raise Unsupported("super() outside method")
            return SSuper(fr.self_, fr.func.cls)
        fv = self.eval(e.func)
        args = self.eval_elts(e.args)
        kwargs = {}
        for k in e.keywords:
            if k.arg is None:
                d = self.resolve(self.eval(k.value))
                if not isinstance(d, SDict):
                    raise Unsupported("**kwargs of non-dict")
                for kk, vv in d.items:
                    kwargs[kk.concrete()] = vv
            else:
                kwargs[k.arg] = self.eval(k.value)
        return self.call_value(fv, args, kwargs)

    def eval_Subscript(self, e):
        o = self.resolve(self.eval(e.value))
        return self.lib.getitem(self, o, e.slice)

    def eval_Slice(self, e):
        return slice(
            self.eval(e.lower) if e.lower is not None else None,
            self.eval(e.upper) if e.upper is not None else None,
            self.eval(e.step) if e.step is not None else None,
        )

    def eval_Lambda(self, e):
        fr = self.frames[-1]
        return SConst(("ifunc", IFunc(e, fr.func.module, fr.func.qualname + ".<lambda>", None, closure=fr)))

    def eval_Yield(self, e):
        fr = self.frames[-1]
        v = self.eval(e.value) if e.value is not None else NONE
        if fr.sink is None:
            raise Unsupported("yield without a consumer")
        return fr.sink(v)

    def eval_YieldFrom(self, e):
        fr = self.frames[-1]
        v = self.resolve(self.eval(e.value))
        if isinstance(v, SGen):
            return self.consume_gen(v, fr.sink)
        for x in self.iterate(v):
            fr.sink(x)
        return NONE

    def eval_Await(self, e):
        v = self.resolve(self.eval(e.value))
        if isinstance(v, SConst) and isinstance(v.obj, tuple) and v.obj and v.obj[0] == "awaitable":
            # suspension point on an environment awaitable: hand it to the consumer (vc.call's on_yield)
            fr = self.frames[-1]
            if fr.sink is None:
                raise Unsupported("await without a consumer")
            return fr.sink(v)
        # awaiting the result of an (eagerly run) interpreted coroutine function
        return v

    def eval_NamedExpr(self, e):
        v = self.eval(e.value)
        self.assign(e.target, v)
        return v

    def eval_Starred(self, e):
        raise Unsupported("starred expression")

    def comp_iter(self, gens, body, i=0):
        if i == len(gens):
            body()
            return
        g = gens[i]
        if g.is_async:
            raise Unsupported("async comprehension")
        for x in self.iterate(self.eval(g.iter)):
            self.assign(g.target, x)
            if all(self.truthy(self.eval(c)) for c in g.ifs):
                self.comp_iter(gens, body, i + 1)

    def with_comp_scope(self, fn):
        fr = self.frames[-1]
        saved = dict(fr.locals)
        try:
            return fn()
        finally:
            # comprehension variables do not leak; other locals cannot be rebound inside a comprehension (except walrus)
            for k in list(fr.locals):
                if k not in saved:
                    del fr.locals[k]
            for k, v in saved.items():
                fr.locals[k] = v

    def eval_ListComp(self, e):
        out = []
        self.with_comp_scope(lambda: self.comp_iter(e.generators, lambda: out.append(self.eval(e.elt))))
        return SList(out)

    def eval_GeneratorExp(self, e):
        out = []
        self.with_comp_scope(lambda: self.comp_iter(e.generators, lambda: out.append(self.eval(e.elt))))
        return SList(out)  # eager; generator expressions in the contracted code are consumed immediately

    def eval_SetComp(self, e):
        out = SSet()
        self.with_comp_scope(lambda: self.comp_iter(e.generators, lambda: self.lib.set_add(self, out, self.eval(e.elt))))
        return out

    def eval_DictComp(self, e):
        out = SDict()
        self.with_comp_scope(lambda: self.comp_iter(e.generators, lambda: self.lib.dict_set(self, out, self.eval(e.key), self.eval(e.value))))
        return out


def type_of(v):
    if isinstance(v, SObj):
        return v.cls
    if isinstance(v, SConst) and isinstance(v.obj, type):
        return type(v.obj)
    return {SInt: int, SBool: bool, SStr: str, SBytes: bytes, SNoneT: type(None), STuple: tuple, SList: list, SDict: dict, SSet: set}.get(type(v), object)


def _as_load(t):
    import copy

    t2 = copy.copy(t)
    t2.ctx = ast.Load()
    return t2


def _assigned_names(loop):
    names = set()

    class V(ast.NodeVisitor):
        def visit_Name(self, n):
            if isinstance(n.ctx, (ast.Store, ast.Del)):
                names.add(n.id)

        def visit_FunctionDef(self, n):
            pass

        def visit_Lambda(self, n):
            pass

    for st in loop.body:
        V().visit(st)
    if isinstance(loop, ast.For):
        V().visit(loop.target)
    return names
