"""pyvc driver: scenarios (contracts), path exploration, obligations, solver portfolio, counter-model
concretisation and native replay.

A *scenario* is a Python function `def s(vc): ...` that
  1. builds a symbolic pre-state (vc.sym_int / sym_bytes / new / ...), states `requires` with vc.assume,
  2. calls the real function(s) with vc.call("pkg.mod:Class.method", self, args...) — in proof mode this
     symbolically executes the function's source text from the working tree; in native mode it calls the real
     function object,
  3. states `ensures` with vc.ensure("name", condition) over the result, the post-state and the trace.
The same text runs in proof mode (all paths, obligations discharged by SMT) and in native mode (one concrete
input: counter-model replay, conformance sampling, bounded enumeration).
"""
from __future__ import annotations

import importlib
import json
import os
import subprocess
import sys
import tempfile
import time
import traceback

import z3

from .core import *  # noqa: F401,F403
from .core import _b, _z, _zi
from . import interp as I

Z3_TIMEOUT_MS = int(os.environ.get("PYVC_Z3_TIMEOUT_MS", "10000"))
CVC5_TIMEOUT_S = int(os.environ.get("PYVC_CVC5_TIMEOUT_S", "120"))
FEAS_TIMEOUT_MS = 2000


def resolve_ref(ref: str):
    """'pkg.mod:Class.method' -> (module, qualname, real object)"""
    modname, qual = ref.split(":")
    mod = importlib.import_module(modname)
    obj = mod
    for p in qual.split("."):
        obj = getattr(obj, p)
    return mod, qual, obj


class Outcome:
    """Result of one call of a real function."""

    def __init__(self, result=None, raised=None, trace=None):
        self.result = result
        self.raised = raised  # exception object (SObj or real) or None
        self.trace = trace or []

    @property
    def ok(self):
        return self.raised is None

    def raised_type(self):
        if self.raised is None:
            return None
        return self.raised.cls if isinstance(self.raised, SObj) else type(self.raised)

    def __repr__(self):
        return f"Outcome(result={self.result!r}, raised={self.raised_type()}, trace={len(self.trace)})"


class Throw:
    """Returned by an on_yield callback to raise an exception at the suspension point (e.g. asyncio.CancelledError)."""

    def __init__(self, cls, *args):
        self.cls = cls
        self.args = args


class _NativeAwaitable:
    def __init__(self, tag, args):
        self.item = ("await", tag) + tuple(args)

    def __await__(self):
        r = yield self.item
        return r


class Obligation:
    def __init__(self, name, status, backend="", seconds=0.0, model=None, path=None, detail=""):
        self.name = name
        self.status = status  # proved | failed | undecided
        self.backend = backend
        self.seconds = seconds
        self.model = model
        self.path = path
        self.detail = detail


# ---------------------------------------------------------------------------------------------
# solving


def _has_quantifier(t):
    seen = set()
    stack = [t]
    while stack:
        x = stack.pop()
        if x.get_id() in seen:
            continue
        seen.add(x.get_id())
        if z3.is_quantifier(x):
            return True
        stack.extend(x.children())
    return False


def solve(constraints, timeout_ms=None, cvc5=True):
    """Returns ('unsat'|'sat'|'unknown', backend, seconds, model_or_None).
    Portfolio: z3 with a short budget, then cvc5 on the same SMT-LIB text, then z3 again with the full budget."""
    t0 = time.time()
    full = timeout_ms or Z3_TIMEOUT_MS

    def run_z3(ms, seed=None):
        s = z3.Solver()
        s.set("timeout", ms)
        if seed is not None:
            s.set("random_seed", seed)
        for c in constraints:
            s.add(c)
        return s, s.check()

    s, r = run_z3(min(3000, full))
    if r == z3.unsat:
        return "unsat", "z3-5.1", time.time() - t0, None
    if r == z3.sat:
        return "sat", "z3-5.1", time.time() - t0, s.model()
    if cvc5:
        r2 = solve_cvc5(s)
        if r2 == "unsat":
            return "unsat", "cvc5", time.time() - t0, None
        if r2 == "sat":
            # cvc5 says sat but gives us no z3 model: ask z3 again (other seed) for a model
            s2, rr = run_z3(full, seed=7)
            if rr == z3.sat:
                return "sat", "cvc5+z3", time.time() - t0, s2.model()
            return "sat", "cvc5", time.time() - t0, None
    if full > 3000:
        s3, r3 = run_z3(full * 3 if cvc5 else full, seed=11)
        if r3 == z3.unsat:
            return "unsat", "z3-5.1", time.time() - t0, None
        if r3 == z3.sat:
            return "sat", "z3-5.1", time.time() - t0, s3.model()
    return "unknown", "z3-5.1,cvc5" if cvc5 else "z3-5.1", time.time() - t0, None


def _free_symbols(t, cache={}):
    """names of the uninterpreted constants / functions occurring in a term"""
    out = set()
    seen = set()
    stack = [t]
    while stack:
        x = stack.pop()
        if x.get_id() in seen:
            continue
        seen.add(x.get_id())
        if z3.is_quantifier(x):
            stack.append(x.body())
            continue
        if z3.is_app(x):
            if x.decl().kind() == z3.Z3_OP_UNINTERPRETED:
                out.add(x.decl().name())
            stack.extend(x.children())
    return out


def slice_constraints(constraints, goal):
    """the constraints transitively connected to `goal` through shared uninterpreted symbols (cone of influence)"""
    syms = [_free_symbols(c) for c in constraints]
    live = set(_free_symbols(goal))
    keep = [False] * len(constraints)
    changed = True
    while changed:
        changed = False
        for i, s in enumerate(syms):
            if not keep[i] and (not s or s & live):
                keep[i] = True
                if not s <= live:
                    live |= s
                    changed = True
    return [c for c, k in zip(constraints, keep) if k]


_CVC5 = None


def cvc5_bin():
    global _CVC5
    if _CVC5 is None:
        _CVC5 = "/usr/bin/cvc5" if os.path.exists("/usr/bin/cvc5") else ""
    return _CVC5


def solve_cvc5(solver):
    if not cvc5_bin():
        return "unknown"
    try:
        text = solver.to_smt2()
    except Exception:
        return "unknown"
    text = "(set-logic ALL)\n" + "\n".join(l for l in text.splitlines() if not l.startswith("(set-info") and not l.startswith("(set-logic"))
    if "seq.nth_i" in text or "(_ char" in text and False:
        return "unknown"
    with tempfile.NamedTemporaryFile("w", suffix=".smt2", delete=False) as f:
        f.write(text)
        path = f.name
    try:
        p = subprocess.run([cvc5_bin(), "--strings-exp", f"--tlimit={CVC5_TIMEOUT_S * 1000}", path], capture_output=True, text=True, timeout=CVC5_TIMEOUT_S + 5)
        out = p.stdout.strip().splitlines()
        if out and out[0] in ("unsat", "sat"):
            return out[0]
        return "unknown"
    except Exception:
        return "unknown"
    finally:
        os.unlink(path)


# ---------------------------------------------------------------------------------------------


class Infeasible(Exception):
    pass


class BudgetExhausted(Exception):
    """the scenario's wall-clock budget ran out in the middle of a path"""


class Explorer:
    """Owns decisions, path condition, fresh symbols and obligations for one scenario."""

    max_depth = 40
    max_unroll = 4
    max_steps = 200000
    max_paths = 3000
    asserts_are_obligations = False
    raw_setattr = False

    def __init__(self, scenario, name, opts=None):
        self.scenario = scenario
        self.name = name
        self.opts = opts or {}
        self.summaries = {}
        self.invariants = {}
        self.inline_roots = [os.path.join(os.environ.get("PYVC_REPO", "/repo"), "mitmproxy")]
        self.results: list[Obligation] = []
        self.notes_all: dict[str, set] = {}
        self.paths = 0
        self.truncated_paths = 0
        self.undecided_paths: list[str] = []
        self.solver_seconds = 0.0
        self.covered: set[str] = set()  # obligations evaluated on at least one feasible path
        self.conf_samples: list[dict] = []
        self.symbols_order: list[tuple] = []
        for k, v in (opts or {}).items():
            if k == "extra_inline_roots":
                # third-party pure-Python code that is interpreted from its real source instead of being trusted
                self.inline_roots = self.inline_roots + list(v)
            else:
                setattr(self, k, v)

    # ---- per-path state
    def reset_path(self, prefix):
        INBOUNDS.clear()  # per-path facts about in-bounds slices (core.slen / lib.pc_slice, opt-in)
        self.decisions = list(prefix)
        self.pos = 0
        self.pc = []
        self.counter = {}
        self.steps = 0
        self.module_globals = {}
        self.class_mutables = {}
        self.known = {}
        self.cases = {}
        self.used_invariant = False
        self.path_names = []
        self.symbols = {}  # name -> (kind, z3 const)
        self.path_obligations = []
        self.trace_stack = []
        self.feas_solver = z3.Solver()
        self.feas_solver.set("timeout", getattr(self, "feas_timeout_ms", FEAS_TIMEOUT_MS))  # scenario option feas_timeout_ms (unknown counts as feasible)

    def note(self, kind, what):
        self.notes_all.setdefault(kind, set()).add(what)

    def fresh(self, kind, hint="v"):
        # never reuse the name of a symbol the scenario (or an earlier havoc) already declared on this path: the same
        # name would be the same z3 constant, silently identifying two different values
        while True:
            n = self.counter.get(hint, 0)
            self.counter[hint] = n + 1
            name = hint if n == 0 else f"{hint}#{n}"
            if name not in self.symbols:
                break
        return self.mk_symbol(kind, name)

    def mk_symbol(self, kind, name):
        if kind == "int":
            c = z3.Int(name)
            v = SInt(c)
        elif kind == "bool":
            c = z3.Bool(name)
            v = SBool(c)
        elif kind == "str":
            c = z3.String(name)
            v = SStr(c)
        elif kind == "bytes":
            c = z3.String(name)
            v = SBytes(c)
            self.assume(z3.InRe(c, z3.Star(z3.Range(chr(0), chr(255)))))
        elif kind == "float":
            c = z3.Real(name)
            v = SFloat(c)
        elif kind.startswith("seq:"):
            elem = kind[4:]
            sort = {"int": z3.IntSort(), "bytes": z3.StringSort(), "str": z3.StringSort(), "bool": z3.BoolSort()}[elem]
            c = z3.Const(name, z3.SeqSort(sort))
            v = SSeq(c, elem)
        else:
            raise Unsupported(f"fresh {kind}")
        self.symbols[name] = (kind, c)
        return v

    def fresh_enum(self, cls, hint):
        v = self.fresh("int", hint)
        vals = [m.value for m in cls]
        import enum as _e

        if issubclass(cls, _e.Flag):
            allbits = 0
            for x in vals:
                allbits |= x
            self.assume(z3.And(v.t >= 0, v.t <= allbits))
        else:
            self.assume(z3.Or(*[v.t == x for x in vals]))
        return SEnum(cls, v.t)

    def assume(self, c):
        c = _b(c)
        self.pc.append(c)
        self.feas_solver.add(c)

    def branch(self, c) -> bool:
        c = simp(c)
        if z3.is_true(c):
            return True
        if z3.is_false(c):
            return False
        k = c.get_id()
        if k in self.known:
            return self.known[k]
        # the same literal already decided on this path in another syntactic form (negated / equality with swapped sides)
        x, neg = (c.arg(0), True) if z3.is_not(c) else (c, False)
        for y in ([x, x.arg(1) == x.arg(0)] if z3.is_eq(x) else [x]):
            if y.get_id() in self.known:
                return self.known[y.get_id()] != neg
            if z3.Not(y).get_id() in self.known:
                return self.known[z3.Not(y).get_id()] == neg
        if self.pos < len(self.decisions):
            d = self.decisions[self.pos]
        else:
            t_ok = self.feasible(c)
            f_ok = self.feasible(z3.Not(c))
            if t_ok and f_ok:
                self.worklist.append(self.decisions[: self.pos] + [False])
                d = True
            elif t_ok:
                d = True
            elif f_ok:
                d = False
            else:
                raise I.PathEnd("infeasible")
            self.decisions.append(d)
        self.pos += 1
        self.known[k] = d
        lit = c if d else z3.Not(c)
        self.pc.append(lit)
        self.feas_solver.add(lit)
        return d

    def choose(self, n: int, label="") -> int:
        """n-ary concrete choice made by the scenario (case split)."""
        if n <= 1:
            return 0
        if self.pos < len(self.decisions):
            d = self.decisions[self.pos]
        else:
            for alt in range(n - 1, 0, -1):
                self.worklist.append(self.decisions[: self.pos] + [alt])
            d = 0
            self.decisions.append(d)
        self.pos += 1
        self.cases[label] = d
        return d

    def check_deadline(self):
        """scenario wall-clock budget (see run()): also checked inside a path, before every solver call"""
        dl = getattr(self, "_deadline", None)
        if dl is not None and time.time() > dl:
            raise BudgetExhausted()

    def feasible(self, c):
        self.check_deadline()
        self.feas_solver.push()
        self.feas_solver.add(c)
        r = self.feas_solver.check()
        self.feas_solver.pop()
        return r != z3.unsat  # unknown counts as feasible (sound for proving: more paths, never fewer)

    def loop_invariant(self, func, ordinal):
        if func is None:
            return None
        return self.invariants.get((func.key, ordinal))

    def on_await(self, it, v):
        h = self.opts.get("on_await") if isinstance(self.opts, dict) else None
        if h is None:
            raise Unsupported("await (no suspension model given)")
        return h(it, v)

    # ---- obligations
    def obligation(self, name, cond):
        """Check `pc => cond` now (one SMT query per path and obligation)."""
        cond = _b(cond) if not isinstance(cond, bool) else z3.BoolVal(cond)
        self.check_deadline()
        self.covered.add(name)
        self.path_names.append(name)
        cs = simp(cond)
        if z3.is_true(cs):
            self.results.append(Obligation(name, "proved", "simplifier", 0.0, path=list(self.decisions[: self.pos])))
            return
        if getattr(self, "candidates_first", False) and getattr(self, "candidates", None):
            # scenario option candidates_first (opt-in, needs `candidates`): look for a counter-model among the concrete
            # candidate inputs before asking the solvers for an arbitrary one (for obligations whose only counter-models are
            # large, e.g. strings longer than a size threshold).  A model found here satisfies pc and Not(cond) with the
            # candidate's values, so the obligation is genuinely refuted; as always it only counts after native replay.
            rm0 = self.realistic_model(self.pc + [z3.Not(cond)])
            if rm0 is not None:
                self.results.append(Obligation(name, "failed", "z3-5.1(candidate)", 0.0, model=rm0, path=list(self.decisions[: self.pos])))
                return
        if getattr(self, "slice_pc", False):
            # scenario option slice_pc (opt-in): first try with only the hypotheses connected to the goal through shared
            # uninterpreted symbols. Dropping hypotheses only weakens the query: unsat there is a proof; any other answer is
            # ignored and the full query below decides.
            sl = slice_constraints(self.pc, z3.Not(cond))
            if len(sl) < len(self.pc):
                st0, be0, dt0, m0 = solve(sl + [z3.Not(cond)], timeout_ms=getattr(self, "z3_timeout_ms", None), cvc5=False)
                self.solver_seconds += dt0
                if st0 == "unsat":
                    self.results.append(Obligation(name, "proved", be0 + "/sliced", dt0, path=list(self.decisions[: self.pos])))
                    return
                if st0 == "sat" and m0 is not None:
                    # the dropped hypotheses share no symbol with the slice: a model of them (they are satisfiable on a
                    # feasible path) and the slice's model combine into a counter-model of the full query
                    keep_ids = {c.get_id() for c in sl}
                    rest = [c for c in self.pc if c.get_id() not in keep_ids]
                    st1, be1, dt1, m1 = solve(rest, timeout_ms=getattr(self, "z3_timeout_ms", None), cvc5=False)
                    self.solver_seconds += dt1
                    if st1 == "sat" and m1 is not None:
                        live = set()
                        for c in sl + [cond]:
                            live |= _free_symbols(c)
                        v0, v1 = self.model_values(m0), self.model_values(m1)
                        merged = {k: (v0[k] if (k in live or k not in v1) else v1[k]) for k in v0}
                        self.results.append(Obligation(name, "failed", be0 + "/sliced", dt0 + dt1, model=merged, path=list(self.decisions[: self.pos])))
                        return
        # scenario option z3_timeout_ms: hand string-heavy queries to cvc5 sooner (portfolio order unchanged)
        status, backend, dt, model = solve(self.pc + [z3.Not(cond)], timeout_ms=getattr(self, "z3_timeout_ms", None))
        self.solver_seconds += dt
        if status == "unsat":
            self.results.append(Obligation(name, "proved", backend, dt, path=list(self.decisions[: self.pos])))
        elif status == "sat":
            rm = self.realistic_model(self.pc + [z3.Not(cond)])  # scenario option `candidates` (uninterpreted library functions)
            self.results.append(Obligation(name, "failed", backend, dt, model=rm if rm is not None else self.model_values(model), path=list(self.decisions[: self.pos])))
        else:
            # no verdict: look for a *candidate* counter-model under a weaker path condition (quantified facts dropped);
            # it only counts if the native replay on the real code confirms it.
            cand = self.candidate_search(cond)
            if cand is not None:
                self.results.append(Obligation(name, "failed", "z3-5.1(candidate)", dt, model=cand, path=list(self.decisions[: self.pos])))
                return
            if os.environ.get("PYVC_DEBUG"):
                sd = z3.Solver()
                sd.add(*self.pc, z3.Not(cond))
                os.makedirs(os.path.join(os.path.dirname(os.path.dirname(os.path.abspath(__file__))), ".scratch"), exist_ok=True)
                open(os.path.join(os.path.dirname(os.path.dirname(os.path.abspath(__file__))), ".scratch", f"unknown-{self.name}-{name}-{len(self.results)}.smt2".replace("/", "_")), "w").write(sd.to_smt2())
            self.results.append(Obligation(name, "undecided", backend, dt, path=list(self.decisions[: self.pos]), detail="solver unknown"))

    def sample_for_conformance(self):
        """CPython conformance of the symbolic executor: keep a concrete input for some completed paths; the runner runs
        the real code on it and compares which obligations were reached and that none fails natively."""
        budget = 40 if os.environ.get("PYVC_TIER") == "thorough" else 4
        if len(self.conf_samples) >= budget or not self.path_names or getattr(self, "used_invariant", False):
            return
        if getattr(self, "candidates", None):
            # path conditions over uninterpreted library functions: only a model that agrees with the real library is a
            # usable CPython sample (none found => no sample for this path)
            rm = self.realistic_model(self.pc)
            if rm is not None:
                failed_here = [o.name for o in self.results[-len(self.path_names):] if o.status == "failed"]
                self.conf_samples.append(dict(model=rm, names=list(self.path_names), failed_sym=failed_here))
            return
        s = z3.Solver()
        s.set("timeout", 2000)
        s.add(*self.pc)
        if s.check() == z3.sat:
            failed_here = [o.name for o in self.results[-len(self.path_names):] if o.status == "failed"]
            self.conf_samples.append(dict(model=self.model_values(s.model()), names=list(self.path_names), failed_sym=failed_here))

    def realistic_model(self, constraints):
        """Scenario option `candidates` = list (or callable returning a list) of {symbol name: concrete value}: for path
        conditions that mention uninterpreted library functions with a native oracle (lib.UF_ORACLES), look for a model
        in which the listed symbols take a candidate's values and every oracle application is replaced by the real
        library's result.  Used only to make counter-models / conformance samples replayable; never for proving."""
        cands = getattr(self, "candidates", None)
        if not cands:
            return None
        from . import lib

        for cand in (cands() if callable(cands) else cands):
            subst = [(self.symbols[n][1], _z(v)) for n, v in cand.items() if n in self.symbols]
            try:
                cs = [lib.eval_oracles(z3.substitute(c, *subst) if subst else c) for c in constraints]
            except Exception:
                continue
            s = z3.Solver()
            s.set("timeout", 2000)
            s.add(*cs)
            if s.check() == z3.sat:
                out = self.model_values(s.model())
                for n, v in cand.items():
                    if n in self.symbols:
                        out[n] = {"str": v} if isinstance(v, str) else {"bytes": bytes(v).hex()} if isinstance(v, (bytes, bytearray)) else v
                out["$realistic"] = True
                return out
        return None

    def candidate_search(self, cond):
        """Bounded search for a candidate counter-model when the solvers answer unknown: sequences are replaced by
        concrete-length sequences of fresh elements (total length <= 3) and strings get a length bound. A candidate
        only counts after native replay on the real code."""
        seqs = [(n, c, k[4:]) for n, (k, c) in self.symbols.items() if k.startswith("seq:")]
        strs = [c for n, (k, c) in self.symbols.items() if k in ("str", "bytes")]
        goal = self.pc + [z3.Not(cond)]
        t_end = time.time() + 20
        import itertools

        lens_opts = list(itertools.product(range(0, 4), repeat=len(seqs))) if seqs else [()]
        lens_opts = [l for l in lens_opts if sum(l) <= 4][:12]
        for lens in lens_opts:
            if time.time() > t_end:
                break
            subst = []
            elems = {}
            for (n, c, elem), L in zip(seqs, lens):
                sort = c.sort().basis()
                es = [z3.Const(f"{n}${L}${i}", sort) for i in range(L)]
                elems[n] = es
                term = z3.Empty(c.sort()) if L == 0 else (z3.Unit(es[0]) if L == 1 else z3.Concat(*[z3.Unit(e) for e in es]))
                subst.append((c, term))
            g = [z3.substitute(f, *subst) for f in goal] if subst else list(goal)
            g += [z3.Length(sc) <= 8 for sc in strs]
            s = z3.Solver()
            s.set("timeout", 3000)
            s.add(*g)
            t0 = time.time()
            r = s.check()
            self.solver_seconds += time.time() - t0
            if r == z3.sat:
                m = s.model()
                out = self.model_values(m, skip_seq=True)
                for (n, c, elem), L in zip(seqs, lens):
                    items = []
                    for e in elems[n]:
                        x = m.eval(e, model_completion=True)
                        items.append(x.as_long() if elem == "int" else bool(z3.is_true(x)) if elem == "bool" else {"bytes": str_value_to_bytes(x).hex()} if elem == "bytes" else {"str": str_value_to_pystr(x)})
                    out[n] = {"seq": items}
                return out
        return None

    def model_values(self, model, skip_seq=False):
        if model is None:
            return None
        out = {}
        for name, (kind, c) in self.symbols.items():
            v = model.eval(c, model_completion=True)
            try:
                if kind == "int":
                    out[name] = v.as_long()
                elif kind == "bool":
                    out[name] = bool(z3.is_true(v))
                elif kind == "str":
                    out[name] = {"str": str_value_to_pystr(v)}
                elif kind == "bytes":
                    out[name] = {"bytes": str_value_to_bytes(v).hex()}
                elif kind.startswith("seq:"):
                    if skip_seq:
                        continue
                    elem = kind[4:]
                    items = []
                    n = model.eval(z3.Length(c), model_completion=True).as_long()
                    for i in range(min(n, 64)):
                        x = model.eval(c[i], model_completion=True)
                        if elem == "int":
                            items.append(x.as_long())
                        elif elem == "bool":
                            items.append(bool(z3.is_true(x)))
                        elif elem == "bytes":
                            items.append({"bytes": str_value_to_bytes(x).hex()})
                        else:
                            items.append({"str": str_value_to_pystr(x)})
                    out[name] = {"seq": items}
                else:
                    out[name] = str(v)
            except Exception:
                out[name] = str(v)
        out["$decisions"] = list(self.decisions[: self.pos])
        out["$cases"] = dict(self.cases)
        return out

    # ---- exploration
    def run(self):
        self.worklist = [[]]
        t0 = time.time()
        while self.worklist:
            if self.paths >= self.max_paths:
                self.undecided_paths.append(f"path budget {self.max_paths} exhausted")
                break
            # wall-clock budget per scenario (checked between paths): a change to the code under contract can make the
            # exploration explode (e.g. a loop whose step becomes symbolic); the check must still end, as undecided
            budget = getattr(self, "time_budget_s", None) or float(os.environ.get(
                "PYVC_SCENARIO_BUDGET", 3600 if os.environ.get("PYVC_TIER") == "thorough" else 900))
            if time.time() - t0 > budget:
                self.undecided_paths.append(f"time budget {int(budget)}s exhausted after {self.paths} paths")
                break
            self._deadline = t0 + budget
            if getattr(self, "stop_on_failure", False) and any(o.status == "failed" and o.model is not None for o in self.results):
                break  # scenario option stop_on_failure (opt-in): a counter-model exists already; the verdict cannot improve
            prefix = self.worklist.pop()
            self.reset_path(prefix)
            vc = SymVC(self)
            self.vc = vc
            try:
                self.scenario(vc)
                self.paths += 1
                self.sample_for_conformance()
            except I.PathEnd as pe:
                self.paths += 1
                if pe.truncated:
                    self.truncated_paths += 1
            except Unsupported as u:
                self.paths += 1
                self.undecided_paths.append(f"unsupported: {u}")
            except I.PyExc as pe:
                # an exception escaped the scenario itself (not captured by vc.call): scenario bug
                self.undecided_paths.append(f"escaped exception {pe!r}")
            except RecursionError:
                self.undecided_paths.append("recursion limit")
            except BudgetExhausted:
                self.undecided_paths.append(f"time budget {int(budget)}s exhausted inside path {self.paths + 1}")
                break
        self._deadline = None
        self.wall = time.time() - t0
        return self


class SymVC:
    """The `vc` object handed to scenarios in proof mode."""

    mode = "sym"

    def __init__(self, ex: Explorer):
        self.ex = ex
        self.it = I.Interp(ex)

    # symbols -------------------------------------------------------------------------------
    def sym_int(self, name, lo=None, hi=None):
        v = self.ex.mk_symbol("int", name)
        if lo is not None:
            self.ex.assume(v.t >= lo)
        if hi is not None:
            self.ex.assume(v.t <= hi)
        return v

    def sym_bool(self, name):
        return self.ex.mk_symbol("bool", name)

    def sym_bytes(self, name, maxlen=None):
        v = self.ex.mk_symbol("bytes", name)
        if maxlen is not None:
            self.ex.assume(z3.Length(v.t) <= maxlen)
        return v

    def sym_str(self, name):
        return self.ex.mk_symbol("str", name)

    def sym_seq(self, name, elem):
        v = self.ex.mk_symbol("seq:" + elem, name)
        if elem == "bytes":
            i = z3.Int(f"{name}$i")
            self.ex.assume(z3.ForAll([i], z3.Implies(z3.And(i >= 0, i < z3.Length(v.t)), z3.InRe(v.t[i], z3.Star(z3.Range(chr(0), chr(255)))))))
        return v

    def sym_enum(self, name, cls):
        return self.ex.fresh_enum(cls, name)

    def fresh_bool(self, hint):
        """A new symbolic boolean each time it is called (nondeterministic environment choice)."""
        return self.ex.fresh("bool", hint)

    def fresh_int(self, hint):
        return self.ex.fresh("int", hint)

    def fresh_bytes(self, hint):
        return self.ex.fresh("bytes", hint)

    def raise_(self, cls, *args):
        """Raise a Python exception into the interpreted program (for summaries)."""
        raise I.PyExc(I.exc_obj(cls, *args))

    def deque(self, items):
        import collections

        return SObj(collections.deque, {"_items": SList([lift(x) for x in items])})

    def case(self, label, options):
        """Concrete case split made by the contract (each option explored as its own path)."""
        options = list(options)
        return options[self.ex.choose(len(options), label)]

    def opt(self, name, value):
        """None or value, symbolically."""
        b = self.ex.mk_symbol("bool", name + "$isnone")
        return SUnion([(b.t, NONE), (z3.Not(b.t), value)])

    # heap ----------------------------------------------------------------------------------
    def new(self, ref, **fields):
        cls = resolve_ref(ref)[2] if isinstance(ref, str) else ref
        return SObj(cls, {k: lift(v) for k, v in fields.items()})

    def construct(self, ref, *args, **kwargs):
        cls = resolve_ref(ref)[2] if isinstance(ref, str) else ref
        return self._guard(lambda: self.it.instantiate(cls, [lift(a) for a in args], {k: lift(v) for k, v in kwargs.items()}))

    def const(self, ref):
        return lift(resolve_ref(ref)[2])

    def bound(self, obj, ref):
        f = self._ifunc(ref)
        return SBound(obj, f)

    def list(self, items):
        return SList([lift(x) for x in items])

    def dict(self, items):
        return SDict([(lift(k), lift(v)) for k, v in items])

    def set(self, items):
        return SSet([lift(x) for x in items])

    def lift(self, x):
        return lift(x)

    # assumptions / obligations -------------------------------------------------------------
    def assume(self, c):
        if isinstance(c, bool):
            if not c:
                raise I.PathEnd("assume false")
            return
        self.ex.assume(c)
        if not self.ex.feasible(z3.BoolVal(True)):
            raise I.PathEnd("infeasible")

    def ensure(self, name, cond):
        self.ex.obligation(name, cond)

    def unreachable(self, name):
        self.ex.obligation(name, False)

    def ensure_kf(self, name, cond, finding, K):
        """Obligation with a recorded known finding: outside the recorded class K it must hold (a model there is a
        fresh violation); inside K it is expected to fail and is matched against known_findings.json by name."""
        self.ex.obligation(f"{name}[outside {finding}]", Implies(Not(K), cond))
        self.ex.note("known-finding", finding)  # inside K: witnessed by the committed witness, replayed natively on every run

    def branch(self, c):
        if isinstance(c, bool):
            return c
        return self.ex.branch(_b(c))

    def truthy(self, v):
        return self.it.truthy(lift(v))

    def summary(self, ref, fn):
        """Replace calls to `ref` ('pkg.mod:Class.method' or 'pkg.mod:func') by the contract function fn(vc, *args).
        fn must work in both modes (in native mode the real attribute is patched for the duration of the run)."""
        self.ex.summaries[ref] = fn

    def gen(self, items, result=None):
        """A generator (for summaries of generator functions) that yields `items` and returns `result`."""
        items = [lift(x) if not isinstance(x, SV) else x for x in items]

        def run(sink):
            for x in items:
                sink(x)
            return lift(result)

        return I.SGen(run)

    def ghost(self, tag, *args):
        """A ghost trace item (tuple) recording an abstracted effect."""
        return STuple([SStr(tag)] + [lift(a) for a in args])

    def context_manager(self, on_enter=None, on_exit=None):
        """A context manager for summaries of `with x():` callees. on_enter() -> value bound by `as`; on_exit(exc_or_None)."""

        def exit_(exc):
            if on_exit is not None:
                on_exit(exc)
            return False

        return SConst(("ctx", lift(on_enter()) if on_enter is not None else NONE, exit_))

    def awaitable(self, tag, *args):
        """An environment awaitable (asyncio.sleep, Event.wait, a hook, ...): `await` on it is a suspension point that is
        handed to vc.call's on_yield as ("await", tag, *args); on_yield's return value is the await's result."""
        return SConst(("awaitable", tag) + tuple(args))

    def throw(self, cls, *args):
        return Throw(cls, *args)

    def invariant(self, ref, ordinal, fn):
        mod, qual, _ = ref.split(":")[0], ref.split(":")[1], None
        self.ex.invariants[(ref, ordinal)] = fn

    def note(self, kind, what):
        self.ex.note(kind, what)

    # calling real code ---------------------------------------------------------------------
    def _ifunc(self, ref):
        mod, qual, obj = resolve_ref(ref)
        parts = qual.split(".")
        if len(parts) > 1:
            cls = mod
            for p in parts[:-1]:
                cls = getattr(cls, p)
            f = self.it.find_method(cls, parts[-1])
            if f is None:
                raise Unsupported(f"no source for {ref}")
            return f
        f = I.ifunc_of_pyfunc(obj)
        if f is None:
            raise Unsupported(f"no source for {ref}")
        return f

    def _guard(self, fn):
        return fn()

    def call(self, ref, *args, on_yield=None, **kwargs):
        """Symbolically execute the real function `ref`. Returns an Outcome; exceptions of the program are
        captured in Outcome.raised."""
        f = self._ifunc(ref) if isinstance(ref, str) else ref
        trace = []

        def sink(cmd):
            if isinstance(cmd, SConst) and isinstance(cmd.obj, tuple) and cmd.obj and cmd.obj[0] == "awaitable":
                cmd = ("await",) + tuple(cmd.obj[1:])  # suspension point: same shape in both modes
            trace.append(cmd)
            if on_yield is not None:
                r = on_yield(cmd)
                if isinstance(r, Throw):
                    raise I.PyExc(I.exc_obj(r.cls, *r.args))
                return NONE if r is None else lift(r)
            return NONE

        args = [lift(a) for a in args]
        kwargs = {k: lift(v) for k, v in kwargs.items()}
        try:
            if isinstance(f, SBound):
                r = self.it.call_ifunc(f.func, [f.self_] + args, kwargs, sink=sink)
            else:
                r = self.it.call_ifunc(f, args, kwargs, sink=sink)
            if isinstance(r, I.SGen):
                r = self.it.consume_gen(r, sink)
            return Outcome(result=self.it.resolve(r), trace=trace)
        except I.PyExc as pe:
            return Outcome(raised=pe.exc, trace=trace)

    def getattr(self, obj, name):
        return self.it.resolve(self.it.getattr_(obj, name))

    def resolve(self, v):
        return self.it.resolve(v)

    def eq(self, a, b):
        from . import lib

        return lib.py_eq(self.it, lift(a), lift(b))


# ---------------------------------------------------------------------------------------------
# native mode: the same scenario text on concrete values, against the real function objects


class NativeStop(Exception):
    pass


_ALIAS_CACHE: dict = {}


def _aliases_of(orig, owner):
    """(module, name) pairs under which a module-level function is also importable (`from m import f`). Cached."""
    key = id(orig)
    if key not in _ALIAS_CACHE:
        import types as _types

        out = []
        for m in list(sys.modules.values()):
            if not isinstance(m, _types.ModuleType) or m is owner:
                continue
            d = getattr(m, "__dict__", None)
            if not d:
                continue
            for name, val in list(d.items()):
                if val is orig:
                    out.append((m, name))
        _ALIAS_CACHE[key] = out
    return _ALIAS_CACHE[key]


class NativeVC:
    mode = "native"

    def __init__(self, values: dict, decisions=None):
        self.values = values
        self.decisions = list(decisions or values.get("$decisions", []))
        self.pos = 0
        self.failed: list[str] = []
        self.checked: list[str] = []
        self.assume_failed = False
        self.calls = []
        self._patches = []
        self._counter = {}
        self._declared = set()

    def _val(self, name, default):
        self._declared.add(name)
        v = self.values.get(name, default)
        if isinstance(v, dict):
            if "bytes" in v:
                return bytes.fromhex(v["bytes"])
            if "str" in v:
                return v["str"]
            if "seq" in v:
                return [self._val_item(x) for x in v["seq"]]
        return v

    def _val_item(self, v):
        if isinstance(v, dict):
            if "bytes" in v:
                return bytes.fromhex(v["bytes"])
            if "str" in v:
                return v["str"]
        return v

    def sym_int(self, name, lo=None, hi=None):
        v = self._val(name, lo if lo is not None else 0)
        if (lo is not None and v < lo) or (hi is not None and v > hi):
            raise NativeStop("range")
        return v

    def sym_bool(self, name):
        return bool(self._val(name, False))

    def sym_bytes(self, name, maxlen=None):
        return self._val(name, b"")

    def sym_str(self, name):
        return self._val(name, "")

    def sym_seq(self, name, elem):
        return self._val(name, [])

    def sym_enum(self, name, cls):
        return cls(self._val(name, list(cls)[0].value))

    def _fresh(self, hint, default):
        while True:  # mirrors Explorer.fresh: skip names already declared on this run
            n = self._counter.get(hint, 0)
            self._counter[hint] = n + 1
            name = hint if n == 0 else f"{hint}#{n}"
            if name not in self._declared:
                break
        return self._val(name, default)

    def fresh_bool(self, hint):
        return bool(self._fresh(hint, False))

    def fresh_int(self, hint):
        return self._fresh(hint, 0)

    def fresh_bytes(self, hint):
        return self._fresh(hint, b"")

    def raise_(self, cls, *args):
        raise cls(*args)

    def deque(self, items):
        import collections

        return collections.deque(items)

    def case(self, label, options):
        options = list(options)
        # scenario-level choices are part of the recorded decisions, interleaved with interpreter branches;
        # natively we only see the scenario-level ones, given explicitly in values["$cases"].
        cases = self.values.setdefault("$cases", {})
        return options[cases.get(label, 0)]

    def opt(self, name, value):
        return None if self._val(name + "$isnone", False) else value

    def new(self, ref, **fields):
        cls = resolve_ref(ref)[2] if isinstance(ref, str) else ref
        o = cls.__new__(cls)
        for k, v in fields.items():
            object.__setattr__(o, k, v)
        return o

    def construct(self, ref, *args, **kwargs):
        cls = resolve_ref(ref)[2] if isinstance(ref, str) else ref
        return cls(*args, **kwargs)

    def const(self, ref):
        return resolve_ref(ref)[2]

    def bound(self, obj, ref):
        return getattr(obj, ref.split(".")[-1])

    def list(self, items):
        return list(items)

    def dict(self, items):
        return dict(items)

    def set(self, items):
        return set(items)

    def lift(self, x):
        return x

    def assume(self, c):
        if not c:
            self.assume_failed = True
            raise NativeStop("assume")

    def ensure(self, name, cond):
        self.checked.append(name)
        if not cond:
            self.failed.append(name)

    def unreachable(self, name):
        self.checked.append(name)
        self.failed.append(name)

    def ensure_kf(self, name, cond, finding, K):
        self.ensure(f"{name}[outside {finding}]", Implies(Not(K), cond))
        self.ensure(f"{name}[{finding}]", Implies(K, cond))

    def branch(self, c):
        return bool(c)

    def truthy(self, v):
        return bool(v)

    def summary(self, ref, fn):
        mod, qual, obj = resolve_ref(ref)
        parts = qual.split(".")
        owner = mod
        for p in parts[:-1]:
            owner = getattr(owner, p)
        orig = owner.__dict__.get(parts[-1]) if isinstance(owner, type) else getattr(owner, parts[-1])
        vc = self
        is_static = isinstance(orig, staticmethod)

        def wrapper(*a, **k):
            return fn(vc, *a, **k)

        wrapper.__name__ = parts[-1]
        wrapper.__qualname__ = qual
        self._patches.append((owner, parts[-1], orig, parts[-1] in owner.__dict__))
        setattr(owner, parts[-1], staticmethod(wrapper) if is_static else property(wrapper) if isinstance(orig, property) else wrapper)
        if not isinstance(owner, type):
            # module-level function: also patch every `from m import f` alias of the same object
            for m, name in _aliases_of(orig, owner):
                if getattr(m, name, None) is orig:
                    self._patches.append((m, name, orig, True))
                    setattr(m, name, wrapper)

    def restore(self):
        for owner, name, orig, had in reversed(self._patches):
            if had:
                setattr(owner, name, orig)
            else:
                delattr(owner, name)
        self._patches.clear()

    def gen(self, items, result=None):
        def g():
            for x in items:
                yield x
            return result

        return g()

    def ghost(self, tag, *args):
        return (tag,) + tuple(args)

    def context_manager(self, on_enter=None, on_exit=None):
        import contextlib

        @contextlib.contextmanager
        def cm():
            v = on_enter() if on_enter is not None else None
            try:
                yield v
            except BaseException as e:
                if on_exit is not None:
                    on_exit(e)
                raise
            else:
                if on_exit is not None:
                    on_exit(None)

        return cm()

    def awaitable(self, tag, *args):
        return _NativeAwaitable(tag, args)

    def throw(self, cls, *args):
        return Throw(cls, *args)

    def invariant(self, ref, ordinal, fn):
        pass

    def note(self, kind, what):
        pass

    def call(self, ref, *args, on_yield=None, **kwargs):
        if isinstance(ref, str):
            mod, qual, obj = resolve_ref(ref)
            parts = qual.split(".")
            if len(parts) > 1 and args and not isinstance(obj, (staticmethod,)):
                cls = mod
                for p in parts[:-1]:
                    cls = getattr(cls, p)
                if isinstance(args[0], cls) or (isinstance(args[0], type) and issubclass(args[0], cls)):
                    fn = getattr(args[0], parts[-1])  # bound
                    args = args[1:]
                else:
                    fn = obj
            else:
                fn = obj
        else:
            fn = ref
        trace = []
        try:
            r = fn(*args, **kwargs)
            import types as _t

            import contextlib as _cl

            if isinstance(r, _cl._GeneratorContextManager):
                r = r.gen  # @contextmanager function: drive its generator (enter part, yield, exit part) like proof mode does
            if isinstance(r, (_t.GeneratorType, _t.CoroutineType)):
                reply = None
                try:
                    cmd = r.send(None)
                    while True:
                        trace.append(cmd)
                        reply = on_yield(cmd) if on_yield is not None else None
                        if isinstance(reply, Throw):
                            cmd = r.throw(reply.cls(*reply.args))
                        else:
                            cmd = r.send(reply)
                except StopIteration as si:
                    r = si.value
            return Outcome(result=r, trace=trace)
        except (NativeStop, KeyboardInterrupt, SystemExit):
            raise
        except BaseException as e:  # the real code raised (incl. asyncio.CancelledError, a BaseException)
            return Outcome(raised=e, trace=trace)

    def getattr(self, obj, name):
        return getattr(obj, name)

    def resolve(self, v):
        return v

    def eq(self, a, b):
        return a == b


def run_native(scenario, values):
    """Run the scenario on concrete values against the real code. Returns (failed obligations, checked, note)."""
    vc = NativeVC(dict(values))
    try:
        scenario(vc)
    except NativeStop as ns:
        return vc.failed, vc.checked, f"stopped: {ns}"
    finally:
        vc.restore()
    return vc.failed, vc.checked, "completed"
