"""What a property module (props/Cxx.py) imports."""
from __future__ import annotations

from .core import (  # noqa: F401
    And, Eq, If, Iff, Implies, Ne, Not, Or, NONE, SBool, SBytes, SInt, SList, SObj, SStr, STuple, SDict, SSeq, SEnum,
    SUnion, SConst, be16, code_at, concat_all, contains, endswith, from_codes, isa, isnone, len_, lift, startswith,
    truth, is_sym, Unsupported, is_const,
)
from .vc import Outcome  # noqa: F401


class Scenario:
    def __init__(self, fn, name, functions, opts, claim):
        self.fn = fn
        self.name = name
        self.functions = functions
        self.opts = opts
        self.claim = claim

    def __call__(self, vc):
        return self.fn(vc)


def scenario(name, functions=(), claim="", **opts):
    """Registers a T1 scenario (a contract on the listed real functions)."""

    def deco(fn):
        s = Scenario(fn, name, list(functions), opts, claim)
        fn.__globals__.setdefault("SCENARIOS", []).append(s)
        return s

    return deco


class Bounded:
    """Collects results of a T2 (bounded, run-time) check."""

    def __init__(self):
        self.evaluations = 0
        self.distinct = set()
        self.failures = []  # dicts: {check, input, detail}
        self.samples = []
        self.rule = ""
        self.bound = ""
        self.exhaustive = False

    def case(self, key, nontrivial=True):
        self.evaluations += 1
        if nontrivial:
            self.distinct.add(key if isinstance(key, (str, int, bytes, tuple)) else repr(key))
        if len(self.samples) < 5:
            self.samples.append(repr(key)[:300])

    def fail(self, check, input_, detail=""):
        self.n_failures = getattr(self, "n_failures", 0) + 1
        if sum(1 for f in self.failures if f["check"] == check) >= 5:
            return  # keep the first few failing inputs per check
        self.failures.append({"check": check, "input": input_ if isinstance(input_, (str, int, float, list, dict, type(None))) else repr(input_), "detail": str(detail)[:2000]})
