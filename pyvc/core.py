"""pyvc value model.

Symbolic execution is *concretely typed*: every value has a Python-side kind (int, bool, str, bytes,
None, tuple, list, dict, object of a real /repo class, enum member, bound method ...) and symbolic
*contents* (z3 terms).  Heap objects have concrete identity; aliasing is whatever the scenario that
builds the pre-state set up (stated in each contract).

The helper functions at the end (len_, If, And, ...) work on symbolic values *and* on native Python
values, so that one contract text is used for proof (symbolic), for replaying counter-models on the
real code, and for bounded run-time checking.
"""
from __future__ import annotations

import enum
import z3

# ---------------------------------------------------------------------------------------------


class Unsupported(Exception):
    """Construct outside the verified subset.  Never a verdict: the obligation becomes *undecided*."""


class SV:
    """Base of symbolic values."""

    kind = "?"

    def __bool__(self):
        raise Unsupported(f"native truth test on symbolic value {self!r}; use vc.branch / If / And")

    __hash__ = object.__hash__


def _z(x):
    """z3 term of an int-like/bool-like/str-like operand."""
    if isinstance(x, (SInt, SBool, SStr, SBytes)):
        return x.t
    if isinstance(x, bool):
        return z3.BoolVal(x)
    if isinstance(x, int):
        return z3.IntVal(x)
    if isinstance(x, str):
        return z3.StringVal(x)
    if isinstance(x, (bytes, bytearray)):
        return bytes_val(bytes(x))
    if isinstance(x, z3.ExprRef):
        return x
    raise Unsupported(f"no z3 term for {type(x).__name__}")


def bytes_val(b: bytes):
    return z3.StringVal("".join(chr(c) for c in b))


def simp(t):
    return z3.simplify(t)


class SInt(SV):
    kind = "int"

    def __init__(self, t):
        self.t = z3.IntVal(t) if isinstance(t, int) else t

    def concrete(self):
        t = simp(self.t)
        return t.as_long() if z3.is_int_value(t) else None

    def __repr__(self):
        return f"SInt({simp(self.t)})"

    # arithmetic (also used by contract texts)
    def __add__(self, o): return SInt(self.t + _zi(o))
    def __radd__(self, o): return SInt(_zi(o) + self.t)
    def __sub__(self, o): return SInt(self.t - _zi(o))
    def __rsub__(self, o): return SInt(_zi(o) - self.t)
    def __mul__(self, o): return SInt(self.t * _zi(o))
    def __rmul__(self, o): return SInt(_zi(o) * self.t)
    def __neg__(self): return SInt(-self.t)
    def __floordiv__(self, o): return SInt(floordiv(self.t, _zi(o)))
    def __rfloordiv__(self, o): return SInt(floordiv(_zi(o), self.t))
    def __mod__(self, o): return SInt(pymod(self.t, _zi(o)))
    def __rmod__(self, o): return SInt(pymod(_zi(o), self.t))
    def __lt__(self, o): return SBool(self.t < _zi(o))
    def __le__(self, o): return SBool(self.t <= _zi(o))
    def __gt__(self, o): return SBool(self.t > _zi(o))
    def __ge__(self, o): return SBool(self.t >= _zi(o))
    def __eq__(self, o): return Eq(self, o)
    def __ne__(self, o): return Not(Eq(self, o))
    __hash__ = object.__hash__


def _zi(o):
    if isinstance(o, SBool):
        return z3.If(o.t, 1, 0)
    if isinstance(o, bool):
        return z3.IntVal(int(o))
    if isinstance(o, SEnum):
        return o.t
    if isinstance(o, enum.Enum) and isinstance(o.value, int):
        return z3.IntVal(o.value)
    return _z(o)


def floordiv(a, b):
    """Python floor division for z3 ints (z3 div is Euclidean: remainder always >= 0)."""
    bs = simp(b)
    if z3.is_int_value(bs):
        if bs.as_long() > 0:
            return a / b  # z3 Int / Int is integer div, Euclidean == floor for positive divisor
        if bs.as_long() < 0:
            return -((-a) / (-b)) if False else z3.If(pyeuclid_mod(a, b) == 0, a / b, a / b - 1)
    return z3.If(b > 0, a / b, z3.If(a % b == 0, a / b, a / b - 1))


def pyeuclid_mod(a, b):
    return a % b


def pymod(a, b):
    bs = simp(b)
    if z3.is_int_value(bs) and bs.as_long() > 0:
        return a % b
    # python: result has the sign of b
    return z3.If(b > 0, a % b, z3.If(a % b == 0, 0, a % b + b))


class SBool(SV):
    kind = "bool"

    def __init__(self, t):
        self.t = z3.BoolVal(t) if isinstance(t, bool) else t

    def concrete(self):
        t = simp(self.t)
        if z3.is_true(t):
            return True
        if z3.is_false(t):
            return False
        return None

    def __repr__(self):
        return f"SBool({simp(self.t)})"

    def __and__(self, o): return And(self, o)
    def __or__(self, o): return Or(self, o)
    def __invert__(self): return Not(self)
    def __eq__(self, o): return Eq(self, o)
    def __ne__(self, o): return Not(Eq(self, o))
    __hash__ = object.__hash__


class SStr(SV):
    kind = "str"

    def __init__(self, t):
        self.t = z3.StringVal(t) if isinstance(t, str) else t

    def concrete(self):
        t = simp(self.t)
        return t.as_string() if z3.is_string_value(t) else None

    def __repr__(self):
        return f"SStr({simp(self.t)})"

    def __add__(self, o): return SStr(z3.Concat(self.t, _z(o)))
    def __radd__(self, o): return SStr(z3.Concat(_z(o), self.t))
    def __eq__(self, o): return Eq(self, o)
    def __ne__(self, o): return Not(Eq(self, o))
    def __getitem__(self, i): return seq_getitem(self, i)
    __hash__ = object.__hash__


class SBytes(SV):
    """bytes / bytearray contents: a string over the alphabet 0..255 (range constraints are attached
    as assumptions when a symbolic bytes value is created)."""

    kind = "bytes"

    def __init__(self, t):
        self.t = bytes_val(t) if isinstance(t, (bytes, bytearray)) else t

    def concrete(self):
        t = simp(self.t)
        if z3.is_string_value(t):
            return str_value_to_bytes(t)
        return None

    def __repr__(self):
        return f"SBytes({simp(self.t)})"

    def __add__(self, o): return SBytes(z3.Concat(self.t, _z(o)))
    def __radd__(self, o): return SBytes(z3.Concat(_z(o), self.t))
    def __eq__(self, o): return Eq(self, o)
    def __ne__(self, o): return Not(Eq(self, o))
    def __getitem__(self, i): return seq_getitem(self, i)
    __hash__ = object.__hash__


def str_value_to_pystr(t) -> str:
    """Python str of a z3 string value (z3 escapes non-printables as \\u{..})."""
    s = t.as_string()
    out = []
    i = 0
    while i < len(s):
        if s.startswith("\\u{", i):
            j = s.index("}", i)
            out.append(chr(int(s[i + 3 : j], 16)))
            i = j + 1
        elif s.startswith("\\u", i) and i + 6 <= len(s):
            out.append(chr(int(s[i + 2 : i + 6], 16)))
            i += 6
        else:
            out.append(s[i])
            i += 1
    return "".join(out)


def str_value_to_bytes(t) -> bytes:
    return bytes(min(ord(c), 255) for c in str_value_to_pystr(t))


class SNoneT(SV):
    kind = "None"

    def __repr__(self):
        return "NONE"

    def __eq__(self, o): return Eq(self, o)
    def __ne__(self, o): return Not(Eq(self, o))
    __hash__ = object.__hash__


NONE = SNoneT()


class STuple(SV):
    kind = "tuple"

    def __init__(self, items):
        self.items = list(items)

    def __repr__(self):
        return f"STuple({self.items})"

    def __getitem__(self, i):
        return self.items[i]

    def __len__(self):
        return len(self.items)

    def __iter__(self):
        return iter(self.items)

    def __eq__(self, o): return Eq(self, o)
    def __ne__(self, o): return Not(Eq(self, o))
    __hash__ = object.__hash__


class SList(SV):
    """Mutable list with concrete length and symbolic elements (heap object)."""

    kind = "list"

    def __init__(self, items=()):
        self.items = list(items)

    def __repr__(self):
        return f"SList({self.items})"

    def __getitem__(self, i):
        return self.items[i]

    def __len__(self):
        return len(self.items)

    def __iter__(self):
        return iter(self.items)


class SSeq(SV):
    """Immutable-view sequence of symbolic length over scalar elements (z3 Seq). elem: 'int'|'bytes'|'str'|'bool'."""

    kind = "seq"

    def __init__(self, t, elem, mutable_list=True):
        self.t = t
        self.elem = elem

    def __repr__(self):
        return f"SSeq[{self.elem}]({simp(self.t)})"

    def wrap(self, term):
        return {"int": SInt, "bytes": SBytes, "str": SStr, "bool": SBool}[self.elem](term)

    def __getitem__(self, i):
        return self.wrap(z3.SubSeq(self.t, _zi(i), 1)[0]) if False else self.wrap(self.t[_zi(i)])


class SDict(SV):
    """Mutable dict as an insertion-ordered association list [(key SV, value SV)].  Keys may be symbolic;
    look-ups with symbolic keys fork (see interp)."""

    kind = "dict"

    def __init__(self, items=()):
        self.items = [(k, v) for k, v in items]

    def __repr__(self):
        return f"SDict({self.items})"


class SSet(SV):
    kind = "set"

    def __init__(self, items=()):
        self.items = list(items)

    def __repr__(self):
        return f"SSet({self.items})"


class SObj(SV):
    """Instance of a real class with concrete identity and a dict of symbolic fields."""

    kind = "obj"

    def __init__(self, cls, fields=None):
        object.__setattr__(self, "cls", cls)
        object.__setattr__(self, "fields", dict(fields or {}))

    def __repr__(self):
        return f"<{self.cls.__name__}#{id(self) % 10000} {list(self.fields)}>"

    def __getattr__(self, name):
        f = object.__getattribute__(self, "fields")
        if name in f:
            return f[name]
        raise AttributeError(name)

    def __setattr__(self, name, value):
        self.fields[name] = lift(value)

    def __eq__(self, o):
        return self is o

    def __ne__(self, o):
        return self is not o

    __hash__ = object.__hash__


class SEnum(SV):
    """Member of an int-valued Enum/Flag class: symbolic value term."""

    kind = "enum"

    def __init__(self, cls, t):
        self.cls = cls
        self.t = z3.IntVal(t) if isinstance(t, int) else t

    def concrete(self):
        t = simp(self.t)
        return t.as_long() if z3.is_int_value(t) else None

    def __repr__(self):
        return f"SEnum({self.cls.__name__}, {simp(self.t)})"

    def __eq__(self, o): return Eq(self, o)
    def __ne__(self, o): return Not(Eq(self, o))
    __hash__ = object.__hash__


class SConst(SV):
    """Opaque concrete Python object (class, function, module, codec name...)."""

    kind = "const"

    def __init__(self, obj):
        self.obj = obj

    def __repr__(self):
        return f"SConst({getattr(self.obj, '__name__', self.obj)!r})"


class SBound(SV):
    kind = "bound"

    def __init__(self, self_, func):
        self.self_ = self_
        self.func = func  # IFunc

    def __repr__(self):
        return f"SBound({self.func})"


class SUnion(SV):
    """Finite choice between alternatives [(cond z3 Bool, value)], conditions mutually exclusive and exhaustive
    under the path condition.  Resolved by forking when used."""

    kind = "union"

    def __init__(self, alts):
        self.alts = alts

    def __repr__(self):
        return f"SUnion({[(simp(c), v) for c, v in self.alts]})"


class SFloat(SV):
    kind = "float"

    def __init__(self, t):
        self.t = z3.RealVal(t) if isinstance(t, (int, float)) else t

    def __repr__(self):
        return f"SFloat({self.t})"


# ---------------------------------------------------------------------------------------------
# Helpers usable on symbolic and on native values (contract texts use these)


def is_sym(x):
    return isinstance(x, SV) or isinstance(x, z3.ExprRef)


def _b(x):
    """z3 Bool of a truthy-like operand (SBool / bool / z3 Bool)."""
    if isinstance(x, SBool):
        return x.t
    if isinstance(x, bool):
        return z3.BoolVal(x)
    if isinstance(x, z3.BoolRef):
        return x
    if isinstance(x, SV):
        return truth(x).t
    return z3.BoolVal(bool(x))


def truth(x) -> SBool:
    """Python truthiness as an SBool (no forking; objects with __bool__/__len__ are handled in interp)."""
    if isinstance(x, SBool):
        return x
    if isinstance(x, SInt):
        return SBool(x.t != 0)
    if isinstance(x, SEnum):
        return SBool(x.t != 0) if issubclass(x.cls, enum.Flag) or issubclass(x.cls, int) else SBool(True)
    if isinstance(x, (SStr, SBytes)):
        return SBool(slen(x.t) > 0)
    if isinstance(x, SSeq):
        return SBool(z3.Length(x.t) > 0)
    if isinstance(x, SNoneT):
        return SBool(False)
    if isinstance(x, (STuple, SList)):
        return SBool(len(x.items) > 0)
    if isinstance(x, (SDict, SSet)):
        return SBool(len(x.items) > 0)
    if isinstance(x, (SObj, SConst, SBound)):
        return SBool(True)
    if isinstance(x, SFloat):
        return SBool(x.t != 0)
    if isinstance(x, z3.BoolRef):
        return SBool(x)
    if isinstance(x, SV):
        raise Unsupported(f"truth of {x!r}")
    return SBool(bool(x))


def And(*xs):
    if any(is_sym(x) for x in xs):
        return SBool(z3.And(*[_b(x) for x in xs]))
    return all(xs)


def Or(*xs):
    if any(is_sym(x) for x in xs):
        return SBool(z3.Or(*[_b(x) for x in xs]))
    return any(xs)


def Not(x):
    if is_sym(x):
        return SBool(z3.Not(_b(x)))
    return not x


def Implies(a, b):
    if is_sym(a) or is_sym(b):
        return SBool(z3.Implies(_b(a), _b(b)))
    return (not a) or bool(b)


def Iff(a, b):
    if is_sym(a) or is_sym(b):
        return SBool(_b(a) == _b(b))
    return bool(a) == bool(b)


def If(c, a, b):
    if not is_sym(c):
        return a if c else b
    cb = _b(c)
    cs = simp(cb)
    if z3.is_true(cs):
        return a
    if z3.is_false(cs):
        return b
    a, b = lift(a), lift(b)
    if type(a) is type(b) and isinstance(a, (SInt, SBool, SStr, SBytes)):
        return type(a)(z3.If(cb, a.t, b.t))
    if isinstance(a, SEnum) and isinstance(b, SEnum) and a.cls is b.cls:
        return SEnum(a.cls, z3.If(cb, a.t, b.t))
    if isinstance(a, STuple) and isinstance(b, STuple) and len(a.items) == len(b.items):
        return STuple([If(c, x, y) for x, y in zip(a.items, b.items)])
    if a is b:
        return a
    return SUnion([(cb, a), (z3.Not(cb), b)])


def Eq(a, b):
    """Python == as SBool (structural on tuples/lists; identity on objects unless handled in interp)."""
    if not is_sym(a) and not is_sym(b):
        return a == b
    a, b = lift(a), lift(b)
    if isinstance(a, SUnion) or isinstance(b, SUnion):
        if isinstance(a, SUnion):
            return SBool(z3.Or(*[z3.And(c, _b(Eq(v, b))) for c, v in a.alts]))
        return SBool(z3.Or(*[z3.And(c, _b(Eq(a, v))) for c, v in b.alts]))
    num = (SInt, SBool, SEnum)
    if isinstance(a, num) and isinstance(b, num):
        if isinstance(a, SBool) and isinstance(b, SBool):
            return SBool(a.t == b.t)
        if isinstance(a, SEnum) and isinstance(b, SEnum):
            if a.cls is not b.cls:
                return SBool(False)
            return SBool(a.t == b.t)
        if isinstance(a, SEnum) or isinstance(b, SEnum):
            e = a if isinstance(a, SEnum) else b
            if not issubclass(e.cls, int):
                return SBool(False)
        return SBool(_zi(a) == _zi(b))
    if isinstance(a, SStr) and isinstance(b, SStr):
        return SBool(a.t == b.t)
    if isinstance(a, SBytes) and isinstance(b, SBytes):
        return SBool(a.t == b.t)
    if isinstance(a, SNoneT) or isinstance(b, SNoneT):
        return SBool(isinstance(a, SNoneT) and isinstance(b, SNoneT))
    if isinstance(a, (STuple,)) and isinstance(b, (STuple,)) or isinstance(a, SList) and isinstance(b, SList):
        if len(a.items) != len(b.items):
            return SBool(False)
        return SBool(z3.And(*[_b(Eq(x, y)) for x, y in zip(a.items, b.items)])) if a.items else SBool(True)
    if isinstance(a, SSeq) and isinstance(b, SSeq):
        return SBool(a.t == b.t)
    if isinstance(a, SSeq) and isinstance(b, (SList, STuple)) or isinstance(b, SSeq) and isinstance(a, (SList, STuple)):
        s, l = (a, b) if isinstance(a, SSeq) else (b, a)
        conj = [z3.Length(s.t) == len(l.items)] + [_b(Eq(s.wrap(s.t[i]), x)) for i, x in enumerate(l.items)]
        return SBool(z3.And(*conj))
    if isinstance(a, (SObj, SConst, SBound)) or isinstance(b, (SObj, SConst, SBound)):
        if isinstance(a, SConst) and isinstance(b, SConst):
            return SBool(a.obj == b.obj)
        if isinstance(a, SBound) and isinstance(b, SBound):
            return SBool(a.self_ is b.self_ and a.func is b.func)
        return SBool(a is b)
    if isinstance(a, SDict) and isinstance(b, SDict):
        if len(a.items) != len(b.items):
            return SBool(False)
        ka = [k.concrete() if isinstance(k, (SStr, SBytes, SInt)) else None for k, _ in a.items]
        kb = [k.concrete() if isinstance(k, (SStr, SBytes, SInt)) else None for k, _ in b.items]
        if a.items and None not in ka and None not in kb and len(set(map(repr, ka))) == len(ka) and len(set(map(repr, kb))) == len(kb):
            # all keys concrete: dict equality does not depend on insertion order
            tk = lambda k: (type(k).__name__, k)
            mb = {tk(k): v for k, (_, v) in zip(kb, b.items)}
            if set(mb) != {tk(k) for k in ka}:
                return SBool(False)
            return SBool(z3.And(*[_b(Eq(v, mb[tk(k)])) for k, (_, v) in zip(ka, a.items)]))
        return SBool(z3.And(*[z3.And(_b(Eq(k1, k2)), _b(Eq(v1, v2))) for (k1, v1), (k2, v2) in zip(a.items, b.items)])) if a.items else SBool(True)
    if isinstance(a, SFloat) and isinstance(b, SFloat):
        return SBool(a.t == b.t)
    # different kinds
    return SBool(False)


def Ne(a, b):
    return Not(Eq(a, b))


def lift(x):
    """Native Python constant -> symbolic value (identity on SV)."""
    if isinstance(x, SV):
        return x
    if x is None:
        return NONE
    if isinstance(x, bool):
        return SBool(x)
    if isinstance(x, enum.Enum):
        if isinstance(x.value, int):
            return SEnum(type(x), x.value)
        return SConst(x)
    if isinstance(x, int):
        return SInt(x)
    if isinstance(x, float):
        return SFloat(x)
    if isinstance(x, str):
        return SStr(x)
    if isinstance(x, (bytes, bytearray)):
        return SBytes(bytes(x))
    if isinstance(x, tuple) and hasattr(x, "_fields"):
        # namedtuple instance: object with named fields (and the positional view in _items)
        vals = [lift(i) for i in x]
        o = SObj(type(x), dict(zip(x._fields, vals)))
        o.fields["_items"] = STuple(vals)
        return o
    if isinstance(x, tuple):
        return STuple([lift(i) for i in x])
    if isinstance(x, list):
        return SList([lift(i) for i in x])
    if isinstance(x, dict):
        return SDict([(lift(k), lift(v)) for k, v in x.items()])
    if isinstance(x, (set, frozenset)):
        return SSet([lift(i) for i in sorted(x, key=repr)])
    if isinstance(x, z3.BoolRef):
        return SBool(x)
    if isinstance(x, z3.ArithRef):
        return SInt(x)
    if isinstance(x, z3.SeqRef):
        return SStr(x)
    return SConst(x)


def len_(x):
    if isinstance(x, (SStr, SBytes)):
        return SInt(slen(x.t))
    if isinstance(x, SSeq):
        return SInt(z3.Length(x.t))
    if isinstance(x, (STuple, SList, SDict, SSet)):
        return len(x.items)
    return len(x)


def seq_getitem(x, i):
    """Indexing/slicing of SStr/SBytes with Python semantics, *assuming* a plain index is in range
    (contract texts state that separately; the interpreter checks the range and raises IndexError)."""
    n = slen(x.t)
    if isinstance(i, slice):
        if i.step is not None:
            raise Unsupported("slice step")
        return type(x)(slice_term(x.t, i.start, i.stop))
    it = _zi(i)
    its = simp(it)
    if z3.is_int_value(its) and its.as_long() < 0:
        it = n + it
    elif not z3.is_int_value(its):
        it = z3.If(it < 0, n + it, it)
    if isinstance(x, SBytes):
        return SInt(scode(x.t, simp(it)))
    return SStr(sat(x.t, simp(it)))


def norm_index(i, n, default):
    """Clamped slice bound as a z3 Int term."""
    if i is None or isinstance(i, SNoneT):
        return default
    it = _zi(i)
    its = simp(it)
    if z3.is_int_value(its):
        v = its.as_long()
        if v >= 0:
            d = _decide_lt(n, z3.IntVal(v))  # decided syntactically when n is a sum of lengths (len >= 0)
            if d is not None:
                return n if d else z3.IntVal(v)
            return z3.If(n < v, n, z3.IntVal(v))
        return z3.If(n + v < 0, z3.IntVal(0), n + v)
    if _decide_lt(it, z3.IntVal(0)) is False:  # index syntactically >= 0
        d = _decide_lt(n, it)
        if d is not None:
            return n if d else it
        return z3.If(it > n, n, it)
    return z3.If(it < 0, z3.If(n + it < 0, z3.IntVal(0), n + it), z3.If(it > n, n, it))


# --- string-term normalisation (sound rewrites applied while building VCs; they keep nested slices and character
#     accesses expressed over the *base* string with integer arithmetic, which is what the string solvers are good at)


def _kind(t):
    return t.decl().kind() if z3.is_app(t) else None


def zmin(a, b):
    return z3.If(a < b, a, b)


INBOUNDS: dict = {}  # per path (cleared by Explorer.reset_path): id of substr term -> (term, exact length); opt-in, see lib.pc_slice


def slen(t):
    """Length of a string term as integer arithmetic over the lengths of its base strings."""
    if z3.is_string_value(t):
        return z3.IntVal(len(str_value_to_pystr(t)))
    k = _kind(t)
    if k == z3.Z3_OP_SEQ_EXTRACT:
        e = INBOUNDS.get(t.get_id())
        if e is not None and e[0].eq(t):
            return e[1]  # slice known (from the path condition, see lib.pc_slice) to lie within its base string
        base, a, n = t.children()
        lb = slen(base)
        return simp(z3.If(z3.Or(a < 0, n <= 0, a >= lb), z3.IntVal(0), zmin(n, lb - a)))
    if k == z3.Z3_OP_SEQ_CONCAT:
        r = z3.IntVal(0)
        for c in t.children():
            r = r + slen(c)
        return simp(r)
    if k == z3.Z3_OP_ITE:
        c, x, y = t.children()
        return z3.If(c, slen(x), slen(y))
    if _is_byte_char(t):
        return z3.IntVal(1)
    return z3.Length(t)


def _is_byte_char(t):
    """t is str.from_code(x) with x syntactically in 0..255 (x = y mod m, 1 <= m <= 256, or a literal): a 1-character string"""
    if _kind(t) != z3.Z3_OP_STR_FROM_CODE:
        return False
    x = t.children()[0]
    if z3.is_int_value(x):
        return 0 <= x.as_long() <= 255
    if _kind(x) == z3.Z3_OP_MOD:
        m = x.children()[1]
        return z3.is_int_value(m) and 1 <= m.as_long() <= 256
    return False


def ssub(t, a, n):
    """substr(t, a, n) for a >= 0 (callers normalise), flattened through nested substr."""
    if _kind(t) == z3.Z3_OP_SEQ_EXTRACT:
        base, a0, n0 = t.children()
        l1 = slen(t)
        # valid for a >= 0: characters of t are characters of base shifted by a0 (t is empty when a0 < 0)
        return ssub(base, simp(a0 + a), simp(zmin(n, l1 - a)))
    if _kind(t) == z3.Z3_OP_SEQ_CONCAT:
        # distribute the slice over the concatenation (valid for a >= 0, n >= 0): the part taken from the head has
        # ta = clamp(len(head) - a, 0, n) characters, the rest comes from the tail starting at max(a - len(head), 0)
        cs = t.children()
        head = cs[0]
        tail = cs[1] if len(cs) == 2 else z3.Concat(*cs[1:])
        lh = slen(head)
        # shortcuts that keep long concatenations from blowing up into nested ite terms (all decided syntactically,
        # using len(..) >= 0): empty slice; slice entirely behind the head; slice entirely inside the head
        n_s = simp(n)
        if z3.is_int_value(n_s) and n_s.as_long() <= 0:
            return z3.StringVal("")
        if _decide_lt(a, lh) is False:
            return ssub(tail, simp(a - lh), n)
        if _decide_lt(lh, simp(a + n)) is False and _decide_lt(a, z3.IntVal(0)) is False:
            return ssub(head, a, n)
        ta = simp(z3.If(lh - a < 0, z3.IntVal(0), zmin(lh - a, n)))
        sh = ssub(head, a, ta)
        st = ssub(tail, simp(z3.If(a - lh > 0, a - lh, z3.IntVal(0))), simp(n - ta))
        return simp(z3.Concat(sh, st))
    if _is_byte_char(t):
        a_s, n_s = simp(a), simp(n)
        if z3.is_int_value(a_s) and z3.is_int_value(n_s):  # slice of a 1-character string with constant bounds (a >= 0)
            return t if (a_s.as_long() == 0 and n_s.as_long() >= 1) else z3.StringVal("")
    return z3.SubString(t, a, n)


def sat(t, i):
    """1-character string at in-range index i >= 0 (i < slen(t)), expressed over the base string."""
    k = _kind(t)
    if k == z3.Z3_OP_SEQ_EXTRACT:
        base, a0, n0 = t.children()
        return sat(base, simp(a0 + i))
    if k == z3.Z3_OP_SEQ_CONCAT:
        cs = t.children()
        head = cs[0]
        rest = cs[1] if len(cs) == 2 else z3.Concat(*cs[1:])
        lh = slen(head)
        c = simp(i < lh)
        if not (z3.is_true(c) or z3.is_false(c)):
            d = _decide_lt(i, lh)  # uses len(..) >= 0, which z3's simplifier does not
            if d is not None:
                c = z3.BoolVal(d)
        if z3.is_true(c):
            return sat(head, i)
        if z3.is_false(c):
            return sat(rest, simp(i - lh))
        return z3.If(c, sat(head, i), sat(rest, simp(i - lh)))
    return z3.SubString(t, i, 1)


def _linear(t, k, acc):
    """accumulate k*t into acc = {'$c': const, id: [atom, coeff]} for a linear integer term (atoms = anything non-linear)"""
    if z3.is_int_value(t):
        acc["$c"] = acc.get("$c", 0) + k * t.as_long()
        return
    kd = _kind(t)
    if kd == z3.Z3_OP_ADD:
        for c in t.children():
            _linear(c, k, acc)
        return
    if kd == z3.Z3_OP_SUB:
        cs = t.children()
        _linear(cs[0], k, acc)
        for c in cs[1:]:
            _linear(c, -k, acc)
        return
    if kd == z3.Z3_OP_UMINUS:
        _linear(t.children()[0], -k, acc)
        return
    if kd == z3.Z3_OP_MUL:
        cs = t.children()
        consts = [c for c in cs if z3.is_int_value(c)]
        others = [c for c in cs if not z3.is_int_value(c)]
        if len(others) == 1:
            f = 1
            for c in consts:
                f *= c.as_long()
            _linear(others[0], k * f, acc)
            return
    e = acc.setdefault(t.get_id(), [t, 0])
    e[1] += k


def _nonneg_atom(a):
    kd = _kind(a)
    if kd == z3.Z3_OP_SEQ_LENGTH:
        return True
    if kd == z3.Z3_OP_MOD:
        m = a.children()[1]
        return z3.is_int_value(m) and m.as_long() > 0
    return False


def _nonneg(t):
    """True if the linear term t is syntactically >= 0 (constant >= 0, every atom is a length / a mod and has coefficient >= 0)"""
    acc = {}
    _linear(simp(t), 1, acc)
    if acc.get("$c", 0) < 0:
        return False
    for k, v in acc.items():
        if k == "$c":
            continue
        a, co = v
        if co < 0 or (co > 0 and not _nonneg_atom(a)):
            return False
    return True


def _decide_lt(a, b):
    """a < b decided from lengths being non-negative: True / False / None (unknown)"""
    try:
        if _nonneg(b - a - 1):
            return True
        if _nonneg(a - b):
            return False
    except Exception:
        return None
    return None


def scode(t, i):
    c = sat(t, i)
    if _kind(c) == z3.Z3_OP_SEQ_EXTRACT:
        base, a, n = c.children()
        if _is_byte_char(base) and z3.is_int_value(simp(a)) and simp(a).as_long() == 0 and z3.is_int_value(simp(n)) and simp(n).as_long() == 1:
            return base.children()[0]  # to_code(from_code(x)) = x for 0 <= x <= 255
    if _is_byte_char(c):
        return c.children()[0]
    return z3.StrToCode(c)


def slice_term(t, start, stop):
    n = slen(t)
    a = norm_index(start, n, z3.IntVal(0))
    b = norm_index(stop, n, n)
    return ssub(t, simp(a), simp(z3.If(b - a < 0, z3.IntVal(0), b - a)))


def code_at(x, i):
    """Byte value of bytes-like x at non-negative in-range index i."""
    if is_sym(x) or is_sym(i):
        return SInt(scode(_z(x), simp(_zi(i))))
    return x[i]


def be16(x, i):
    """Big-endian 16-bit value at offset i."""
    return code_at(x, i) * 256 + code_at(x, i + 1)


def concat_all(parts, empty=b""):
    r = empty
    for p in parts:
        r = r + p
    return r


def isa(x, cls):
    """isinstance for real objects and symbolic objects."""
    if isinstance(x, SObj):
        return issubclass(x.cls, cls)
    if isinstance(x, SV):
        k = {SInt: int, SBool: bool, SStr: str, SBytes: bytes, SNoneT: type(None), STuple: tuple, SList: list, SDict: dict, SFloat: float}.get(type(x))
        if isinstance(x, SEnum):
            return issubclass(x.cls, cls)
        if isinstance(x, SConst):
            return isinstance(x.obj, cls)
        return k is not None and issubclass(k, cls)
    return isinstance(x, cls)


def isnone(x):
    if isinstance(x, SUnion):
        return SBool(z3.Or(*[c for c, v in x.alts if isinstance(v, SNoneT)]))
    if isinstance(x, SV):
        return isinstance(x, SNoneT)
    return x is None


def contains(hay, needle):
    """`needle in hay` for str/bytes substrings, int-in-bytes and sequences."""
    if not is_sym(hay) and not is_sym(needle):
        return needle in hay
    hay, needle = lift(hay), lift(needle)
    if isinstance(hay, SBytes) and isinstance(needle, (SInt, SEnum)):
        return SBool(z3.And(needle.t >= 0, needle.t < 256, z3.Contains(hay.t, z3.StrFromCode(needle.t))))
    if isinstance(hay, (SBytes, SStr)) and isinstance(needle, (SBytes, SStr)):
        return SBool(z3.Contains(hay.t, needle.t))
    if isinstance(hay, (STuple, SList, SSet)):
        return SBool(z3.Or(*[_b(Eq(needle, x)) for x in hay.items])) if hay.items else SBool(False)
    if isinstance(hay, SSeq):
        return SBool(z3.Contains(hay.t, z3.Unit(_z(needle))))
    if isinstance(hay, SDict):
        return SBool(z3.Or(*[_b(Eq(needle, k)) for k, _ in hay.items])) if hay.items else SBool(False)
    raise Unsupported(f"contains({hay!r}, {needle!r})")


def startswith(s, p):
    if not is_sym(s) and not is_sym(p):
        return s.startswith(p)
    return SBool(z3.PrefixOf(_z(p), _z(s)))


def endswith(s, p):
    if not is_sym(s) and not is_sym(p):
        return s.endswith(p)
    return SBool(z3.SuffixOf(_z(p), _z(s)))


def from_codes(codes):
    """bytes([a, b, ...]) for symbolic or native ints."""
    if not any(is_sym(c) for c in codes):
        return bytes(codes)
    t = z3.StringVal("")
    parts = [z3.StrFromCode(_zi(c)) for c in codes]
    return SBytes(z3.Concat(*parts) if len(parts) > 1 else parts[0]) if parts else SBytes(b"")


def is_const(x, pyobj):
    """identity test against a concrete Python singleton (works for SConst and native)."""
    if isinstance(x, SConst):
        return x.obj is pyobj
    if isinstance(x, SV):
        return False
    return x is pyobj


def seq_at(s, i):
    """element i of a sequence (symbolic SSeq or native list)"""
    return s[i]
