"""Library contracts used by the HTTP message-model properties (C33/C34/C35).

Everything here is opt-in per scenario (scenario option => attribute on the Explorer), so the default models in
lib.py — and with them every other property module — are unaffected.
"""
from __future__ import annotations

import z3

from .lib import *  # noqa: F401,F403
from .lib import METHODS, method, uf, _S
from .core import SBytes, SBool, SInt, SStr

# bytes.strip()/lstrip()/rstrip() without argument strip ASCII whitespace: SP, HT, LF, CR, VT, FF
_WS = z3.Union(*[z3.Re(z3.StringVal(chr(c))) for c in (0x20, 0x09, 0x0A, 0x0D, 0x0B, 0x0C)])
_WS_STAR = z3.Star(_WS)

_default_bytes_strip = METHODS[(SBytes, "strip")]


@method(SBytes, "strip")
def _bytes_strip_exact(it, s, *a):
    """Exact model of bytes.strip() (no argument), enabled by the scenario option `exact_strip=True`:
    s = a ++ r ++ b with a, b in WS*, and r is empty or neither starts nor ends with a WS byte.  These conditions
    determine r uniquely, so the model is exact (not merely over-approximate)."""
    if a or not getattr(it.ex, "exact_strip", False) or s.concrete() is not None:
        return _default_bytes_strip(it, s, *a)
    r = uf("strip", _S, _S)(s.t)
    pre = it.fresh("bytes", "strip_l")
    post = it.fresh("bytes", "strip_r")
    n = z3.Length(r)
    it.ex.assume(s.t == z3.Concat(pre.t, r, post.t))
    it.ex.assume(z3.InRe(pre.t, _WS_STAR))
    it.ex.assume(z3.InRe(post.t, _WS_STAR))
    it.ex.assume(z3.Or(n == 0, z3.And(z3.Not(z3.InRe(z3.SubString(r, 0, 1), _WS)), z3.Not(z3.InRe(z3.SubString(r, n - 1, 1), _WS)))))
    it.ex.note("lib", "bytes.strip (exact: ASCII whitespace SP HT LF CR VT FF)")
    return SBytes(r)


def is_ws_free_ends(t):
    """z3 condition: t is empty or neither its first nor its last byte is ASCII whitespace (i.e. t.strip() == t)"""
    n = z3.Length(t)
    return z3.Or(n == 0, z3.And(z3.Not(z3.InRe(z3.SubString(t, 0, 1), _WS)), z3.Not(z3.InRe(z3.SubString(t, n - 1, 1), _WS))))
