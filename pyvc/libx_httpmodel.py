"""Library contracts used by the HTTP message-model properties (C33/C34/C35).

Everything here is opt-in per scenario (scenario option => attribute on the Explorer), so the default models in
lib.py — and with them every other property module — are unaffected.
"""
from __future__ import annotations

import z3

from .lib import *  # noqa: F401,F403
from .lib import METHODS, method, uf, _S
from .core import SBytes, SBool, SInt, SStr

# bytes.strip()/lstrip()/rstrip() without argument strip ASCII whitespace: SP, HT, LF, CR, VT, FF
WS_CODES = (0x20, 0x09, 0x0A, 0x0D, 0x0B, 0x0C)


def is_ws_code(c, codes=WS_CODES):
    return z3.Or(*[c == k for k in codes])


def is_ws_free_ends(t, codes=WS_CODES):
    """z3 condition: t is empty or neither its first nor its last byte is in `codes` (<=> t.strip(codes) == t)"""
    n = z3.Length(t)
    return z3.Or(n == 0, z3.And(z3.Not(is_ws_code(z3.StrToCode(z3.SubString(t, 0, 1)), codes)), z3.Not(is_ws_code(z3.StrToCode(z3.SubString(t, n - 1, 1)), codes))))


_default_bytes_strip = METHODS[(SBytes, "strip")]


@method(SBytes, "strip")
def _bytes_strip_lemmas(it, s, *a):
    """bytes.strip() / bytes.strip(<constant bytes>) as an uninterpreted function plus *true facts* about it, instantiated at
    the argument (enabled by the scenario option `strip_lemmas=True`; over-approximate, every assumed fact holds for CPython's
    bytes.strip; W = ASCII whitespace without argument, else the bytes of the argument):
      (1) the result is a substring of s and has no byte of W at either end;
      (2) if s has no byte of W at either end, strip(s) == s;
      (3) if s starts [ends] with a byte of W, strip(s) == strip(s[1:]) [strip(s[:-1])], and (2) for that shorter string."""
    chars = it.resolve(a[0]).concrete() if len(a) == 1 and hasattr(it.resolve(a[0]), "concrete") else None
    if (a and not chars) or len(a) > 1 or not getattr(it.ex, "strip_lemmas", False) or s.concrete() is not None:
        return _default_bytes_strip(it, s, *a)
    codes = tuple(sorted(set(chars))) if a else WS_CODES
    f = uf("strip" if not a else "strip_" + bytes(codes).hex(), _S, _S)
    r = f(s.t)
    n = z3.Length(s.t)
    it.ex.assume(z3.Contains(s.t, r))
    it.ex.assume(is_ws_free_ends(r, codes))
    it.ex.assume(z3.Implies(is_ws_free_ends(s.t, codes), r == s.t))
    tail = z3.simplify(z3.SubString(s.t, 1, n - 1))
    init = z3.simplify(z3.SubString(s.t, 0, n - 1))
    it.ex.assume(z3.Implies(z3.And(n > 0, is_ws_code(z3.StrToCode(z3.SubString(s.t, 0, 1)), codes)), r == f(tail)))
    it.ex.assume(z3.Implies(is_ws_free_ends(tail, codes), f(tail) == tail))
    it.ex.assume(z3.Implies(z3.And(n > 0, is_ws_code(z3.StrToCode(z3.SubString(s.t, n - 1, 1)), codes)), r == f(init)))
    it.ex.assume(z3.Implies(is_ws_free_ends(init, codes), f(init) == init))
    it.ex.note("lib", "bytes.strip (uninterpreted + instantiated lemmas; stripped set: " + (", ".join(hex(c) for c in codes)) + ")")
    return SBytes(r)


# ---------------------------------------------------------------------------------------------------------------
# idna codec: uninterpreted (lib.py) plus two true facts about CPython's encodings.idna fast paths, enabled by the scenario
# option `idna_facts=True`:
#   (E) str.encode("idna") of a pure-ASCII string, when it succeeds, returns the same characters (only label lengths are checked);
#   (D) bytes.decode("idna") of pure-ASCII bytes that do not contain b"xn--" succeeds and returns the same characters.
_ASCII = z3.Star(z3.Range(chr(0), chr(127)))
_default_str_encode = METHODS[(SStr, "encode")]
_default_bytes_decode = METHODS[(SBytes, "decode")]


def _codec_name(a, k, key="encoding"):
    v = a[0] if a else k.get(key)
    c = v.concrete() if v is not None else None
    return (c or "utf-8").lower().replace("_", "-")


@method(SStr, "encode")
def _str_encode_idna(it, s, *a, **k):
    """under idna_facts the idna codec is modelled here completely (independent of other extension modules' codec models)"""
    if not getattr(it.ex, "idna_facts", False) or s.concrete() is not None:
        return _default_str_encode(it, s, *a, **k)
    enc = _codec_name(a, k)
    if enc == "idna":
        ok = uf("encodable_idna", _S, z3.BoolSort())(s.t)
        if not it.branch(SBool(ok)):
            it.raise_(UnicodeError, "idna")
        r = uf("encode_idna_strict", _S, _S)(s.t)
        it.ex.assume(z3.InRe(r, z3.Star(z3.Range(chr(0), chr(255)))))
        it.ex.assume(z3.Implies(z3.InRe(s.t, _ASCII), r == s.t))
        it.ex.assume((z3.Length(r) == 0) == (z3.Length(s.t) == 0))
        it.ex.note("lib", "str.encode('idna') (uninterpreted; facts: identity on pure-ASCII names when it succeeds; empty iff empty)")
        return SBytes(r)
    r = _default_str_encode(it, s, *a, **k)
    if enc in ("utf-8", "utf8"):
        it.ex.assume((z3.Length(r.t) == 0) == (z3.Length(s.t) == 0))
        it.ex.note("assumed", "utf-8 encoding: the result is empty iff the input is empty")
    return r


@method(SBytes, "decode")
def _bytes_decode_idna(it, s, *a, **k):
    if not getattr(it.ex, "idna_facts", False) or s.concrete() is not None or _codec_name(a, k) != "idna":
        return _default_bytes_decode(it, s, *a, **k)
    plain = z3.And(z3.InRe(s.t, _ASCII), z3.Not(z3.Contains(s.t, z3.StringVal("xn--"))))
    ok = uf("decodable_idna", _S, z3.BoolSort())(s.t)
    it.ex.assume(z3.Implies(plain, ok))
    if not it.branch(SBool(ok)):
        it.raise_(UnicodeError, "idna")
    r = uf("decode_idna_strict", _S, _S)(s.t)
    it.ex.assume(z3.Implies(plain, r == s.t))
    it.ex.note("lib", "bytes.decode('idna') (uninterpreted; fact: pure-ASCII input without 'xn--' decodes to itself)")
    return SStr(r)


# ---------------------------------------------------------------------------------------------------------------
# str.lstrip() without argument: opt-in fact (scenario option `lstrip_facts=True`) on top of the registered model:
# a string that is empty or whose first character is not whitespace (str.isspace) is returned unchanged.
_STR_WS = [c for c in range(0x110000) if chr(c).isspace()]
_default_str_lstrip = METHODS.get((SStr, "lstrip"))


def str_starts_with_space(t):
    c = z3.StrToCode(z3.SubString(t, 0, 1))
    return z3.And(z3.Length(t) > 0, z3.Or(*[c == k for k in _STR_WS]))


if _default_str_lstrip is not None:

    @method(SStr, "lstrip")
    def _str_lstrip_fact(it, s, *a):
        r = _default_str_lstrip(it, s, *a)
        if not a and getattr(it.ex, "lstrip_facts", False) and s.concrete() is None:
            it.ex.assume(z3.Implies(z3.Not(str_starts_with_space(s.t)), r.t == s.t))
            it.ex.note("assumed", "str.lstrip(): unchanged when the string is empty or does not start with a whitespace character (str.isspace)")
        return r
