"""Trusted library contracts needed by the DNS properties (C25-C27).

* SByteArray: a *mutable* bytearray (in-place extend / append / clear / slice assignment / slice deletion, aliasing preserved),
  a subclass of SBytes so that every read-only bytes operation keeps working. `bytes(ba)` yields an immutable copy.
  `bytearray(...)` now constructs it (interp's "extend rebinds the name" shortcut is skipped for it).
* methods of real `struct.Struct` objects held in module/class constants (`_LABEL_SIZE.unpack_from`, `Question.HEADER.pack`,
  ...) with the instantiated lemma "an unsigned w-byte field read from bytes is in 0..256^w-1".
* `str.split(sep)` / `bytes.split(sep)` on a symbolic string: structural when the string is a concatenation of literals and
  strings declared separator-free by the scenario (`assume_sep_free`), else exact parts by IndexOf chains, forked on the
  number of parts up to the unroll bound (paths beyond it are truncated and labelled bounded).
* `range()` with a symbolic bound: forked on the value up to the unroll bound (labelled bounded).
* the `idna` codec: uninterpreted functions (IDNA_AXIOMS), with native oracles for replayable models.
* `a | b` on two symbolic ints: a + b - (a & b) with disjoint-bit-range lemmas (sound over-approximation).
"""
import struct as _struct

import z3

from .lib import *  # noqa: F401,F403
from . import lib as _lib
from .lib import METHODS, FUNCTIONS, method, function, uf, bytes_range
from .core import _b, _z, _zi, norm_index, slen, ssub, simp
from . import interp as I

_S = z3.StringSort()
_I = z3.IntSort()

# ---------------------------------------------------------------------------------------------
# mutable bytearray


class SByteArray(SBytes):
    """bytearray: heap object (concrete identity) whose contents term `t` is replaced by in-place operations."""

    kind = "bytearray"


def _ba_new(it, x=None, *a):
    v = _orig_bytes(it, x, *a) if x is not None else SBytes(b"")
    return SByteArray(v.t)


_orig_bytes = FUNCTIONS[id(bytes)][1]


def _bytes(it, x=None, *a):
    r = _orig_bytes(it, x, *a)
    if isinstance(r, SByteArray):
        return SBytes(r.t)  # bytes(bytearray) is an immutable copy
    return r


_bytes.__name__ = "f_bytes"
_ba_new.__name__ = "f_bytearray_mutable"
FUNCTIONS[id(bytes)] = (bytes, _bytes)
FUNCTIONS[id(bytearray)] = (bytearray, _ba_new)


def _as_bytes_term(it, x):
    x = it.resolve(x)
    if isinstance(x, SBytes):
        return x.t
    if isinstance(x, (SList, STuple)):
        return _orig_bytes(it, x).t
    it.raise_(TypeError, "can't extend bytearray with this object")


@method(SByteArray, "extend")
def _ba_extend(it, ba, xs):
    ba.t = simp(z3.Concat(ba.t, _as_bytes_term(it, xs)))
    return NONE


@method(SByteArray, "append")
def _ba_append(it, ba, x):
    x = it.resolve(x)
    if not isinstance(x, (SInt, SEnum)):
        it.raise_(TypeError, "an integer is required")
    if not it.branch(SBool(z3.And(x.t >= 0, x.t < 256))):
        it.raise_(ValueError, "byte must be in range(0, 256)")
    ba.t = simp(z3.Concat(ba.t, z3.StrFromCode(x.t)))
    return NONE


@method(SByteArray, "clear")
def _ba_clear(it, ba):
    ba.t = z3.StringVal("")
    return NONE


@method(SByteArray, "copy")
def _ba_copy(it, ba):
    return SByteArray(ba.t)


_orig_call_method = _lib.call_method


def _call_method(it, obj, name, args, kwargs):
    if type(obj) is SByteArray and (SByteArray, name) not in METHODS and (SBytes, name) in METHODS:
        args = [it.resolve(a) for a in args]
        it.ex.note("lib", f"bytes.{name}")
        return METHODS[(SBytes, name)](it, obj, *args, **kwargs)
    return _orig_call_method(it, obj, name, args, kwargs)


_lib.call_method = _call_method


def _slice_bounds(it, ba, idx):
    if idx.step is not None:
        raise Unsupported("bytearray slice with step")
    n = slen(ba.t)
    lo = norm_index(it.resolve(idx.start) if idx.start is not None else None, n, z3.IntVal(0))
    hi = norm_index(it.resolve(idx.stop) if idx.stop is not None else None, n, n)
    hi = z3.If(hi < lo, lo, hi)
    return simp(lo), simp(hi), n


_orig_setitem = _lib.setitem


def _setitem(it, o, node, v):
    if isinstance(o, SByteArray):
        idx = _lib.eval_index(it, node)
        if isinstance(idx, slice):
            lo, hi, n = _slice_bounds(it, o, idx)
            new = _as_bytes_term(it, v)
            o.t = simp(z3.Concat(ssub(o.t, z3.IntVal(0), lo), new, ssub(o.t, hi, simp(n - hi))))
            return
        i = it.resolve(idx)
        v = it.resolve(v)
        n = slen(o.t)
        if not it.branch(SBool(z3.And(_zi(i) >= -n, _zi(i) < n))):
            it.raise_(IndexError, "bytearray index out of range")
        if not it.branch(SBool(z3.And(_zi(v) >= 0, _zi(v) < 256))):
            it.raise_(ValueError, "byte must be in range(0, 256)")
        k = simp(z3.If(_zi(i) < 0, n + _zi(i), _zi(i)))
        o.t = simp(z3.Concat(ssub(o.t, z3.IntVal(0), k), z3.StrFromCode(_zi(v)), ssub(o.t, simp(k + 1), simp(n - k - 1))))
        return
    return _orig_setitem(it, o, node, v)


_lib.setitem = _setitem

_orig_delitem = _lib.delitem


def _delitem(it, o, node):
    if isinstance(o, SByteArray):
        idx = _lib.eval_index(it, node)
        if not isinstance(idx, slice):
            raise Unsupported("del bytearray[i]")
        lo, hi, n = _slice_bounds(it, o, idx)
        o.t = simp(z3.Concat(ssub(o.t, z3.IntVal(0), lo), ssub(o.t, hi, simp(n - hi))))
        return
    return _orig_delitem(it, o, node)


_lib.delitem = _delitem

# ---------------------------------------------------------------------------------------------
# methods of real struct.Struct objects held in module/class constants

_orig_lookup_function = _lib.lookup_function


def _ranged(it, fmt, tup):
    """instantiated lemma: an unsigned field of w bytes read from a bytes value is in 0 .. 256^w - 1 (bytes are strings over 0..255)"""
    fields = [f for f in _lib.struct_fields(fmt) if isinstance(f, str)]
    vals = [v for v in tup.items if isinstance(v, SInt)]
    for f, v in zip(fields, vals):
        if v.concrete() is None:
            it.ex.assume(z3.And(v.t >= 0, v.t < 256 ** _lib.STRUCT_SIZES[f]))
    it.ex.note("lemma", "bytes-range: an unsigned w-byte field unpacked from bytes is in 0..256^w-1 (instantiated per unpack)")
    return tup


def _lookup_function(o):
    r = _orig_lookup_function(o)
    if r is not None:
        return r
    s = getattr(o, "__self__", None)
    if isinstance(s, _struct.Struct) and getattr(o, "__name__", "") in ("unpack", "unpack_from", "pack"):
        name = o.__name__
        fmt = s.format

        def m(it, *args, **kwargs):
            if name == "unpack":
                return _ranged(it, fmt, _lib.struct_unpack(it, fmt, it.resolve(args[0]), exact=True))
            if name == "unpack_from":
                off = it.resolve(args[1]) if len(args) > 1 else it.resolve(kwargs.get("offset", SInt(0)))
                return _ranged(it, fmt, _lib.struct_unpack(it, fmt, it.resolve(args[0]), exact=False, offset=off))
            return _lib.struct_pack(it, fmt, [it.resolve(a) for a in args])

        m.__name__ = f"Struct({fmt!r}).{name}"
        return m
    return None


_lib.lookup_function = _lookup_function

# ---------------------------------------------------------------------------------------------
# split with a bounded number of parts

_orig_split = {T: METHODS[(T, "split")] for T in (SStr, SBytes)}


def _sepfree_registry(ex):
    reg = ex.__dict__.setdefault("_sepfree", {})
    if reg.get("$pc") is not ex.pc:  # a new path: forget the previous path's declarations
        reg.clear()
        reg["$pc"] = ex.pc
    return reg


def assume_sep_free(vc, s, sep):
    """Scenario helper (proof mode): assume that the symbolic string s does not contain the literal sep, and remember it,
    so that split() of a concatenation of such strings and literals is resolved structurally (no solver call)."""
    vc.ex.assume(z3.Not(z3.Contains(s.t, _z(sep))))
    lit = sep.decode("latin-1") if isinstance(sep, bytes) else sep
    _sepfree_registry(vc.ex)[(s.t.get_id(), lit)] = s.t


def _structural_split(it, s, sep_lit):
    """parts of s.split(sep) when s is a concatenation of literals and strings declared sep-free; else None"""
    reg = _sepfree_registry(it.ex)
    kids = []

    def flat(t):
        if z3.is_app(t) and t.decl().kind() == z3.Z3_OP_SEQ_CONCAT:
            for c in t.children():
                flat(c)
        else:
            kids.append(t)

    flat(s.t)
    parts = [[]]
    for c in kids:
        if z3.is_string_value(c):
            pieces = str_value_to_pystr(c).split(sep_lit)
            parts[-1].append(z3.StringVal(pieces[0]))
            for p in pieces[1:]:
                parts.append([z3.StringVal(p)])
        elif (c.get_id(), sep_lit) in reg:
            parts[-1].append(c)
        else:
            return None
    T = SStr if isinstance(s, SStr) else SBytes
    out = []
    for p in parts:
        p = [x for x in p if not (z3.is_string_value(x) and str_value_to_pystr(x) == "")]
        out.append(T(z3.StringVal("") if not p else (p[0] if len(p) == 1 else z3.Concat(*p))))
    return SList(out)


def _split(it, s, *a, **k):
    T = SStr if isinstance(s, SStr) else SBytes
    c = s.concrete()
    symbolic = c is None or any(x.concrete() is None for x in a if not isinstance(x, SNoneT))
    if not symbolic or len(a) != 1 or k or isinstance(a[0], SNoneT):
        return _orig_split[T](it, s, *a, **k)
    sep = a[0]
    sc = sep.concrete()
    if sc:
        r = _structural_split(it, s, sc.decode("latin-1") if isinstance(sc, bytes) else sc)
        if r is not None:
            return r
    ls = slen(sep.t)
    n = slen(s.t)
    parts = []
    start = z3.IntVal(0)
    bound = it.ex.max_unroll
    while True:
        i = z3.IndexOf(s.t, sep.t, start)
        if not it.branch(SBool(i >= 0)):
            parts.append(T(simp(ssub(s.t, simp(start), simp(n - start)))))
            return SList(parts)
        if len(parts) >= bound:
            it.ex.note("bounded", f"split of a symbolic string: at most {bound + 1} parts explored")
            raise I.PathEnd("split bound", truncated=True)
        parts.append(T(simp(ssub(s.t, simp(start), simp(i - start)))))
        start = simp(i + ls)


for _T in (SStr, SBytes):
    METHODS[(_T, "split")] = _split

# ---------------------------------------------------------------------------------------------
# range with a symbolic bound

_orig_range = FUNCTIONS[id(range)][1]


def _range(it, *a):
    vals = [it.resolve(x) for x in a]
    if all(v.concrete() is not None for v in vals):
        return _orig_range(it, *a)
    if len(vals) == 3:
        raise Unsupported("range with symbolic bounds and a step")
    lo = vals[0] if len(vals) == 2 else SInt(0)
    hi = vals[-1]
    cnt = simp(hi.t - lo.t)
    bound = it.ex.max_unroll
    for n in range(0, bound + 1):
        if it.branch(SBool(cnt == n) if n else SBool(cnt <= 0)):
            return SList([SInt(simp(lo.t + i)) for i in range(n)])
    it.ex.note("bounded", f"range() with a symbolic bound: at most {bound} iterations explored")
    raise I.PathEnd("range bound", truncated=True)


_range.__name__ = "f_range"
FUNCTIONS[id(range)] = (range, _range)

# ---------------------------------------------------------------------------------------------
# idna codec

IDNA_AXIOMS = [
    "bytes.decode('idna') of a non-constant b: succeeds with an uninterpreted str dec_idna(b), raises UnicodeDecodeError, or raises a plain UnicodeError (e.g. invalid punycode, 'IDNA does not round-trip'); which one is an uninterpreted function idna_dec_status(b) in {0,1,2}; constants are decoded by the real codec",
    "str.encode('idna') of a non-constant s: raises UnicodeError, or returns an uninterpreted bytes value enc_idna(s); whether it succeeds is an uninterpreted predicate idna_encodable(s); ''.encode('idna') == b''; constants are encoded by the real codec",
]


def idna_dec_status(t):
    """0 = decodes, 1 = UnicodeDecodeError, 2 = plain UnicodeError"""
    return uf("idna_dec_status", _S, _I)(t)


def idna_dec(t):
    return uf("dec_idna", _S, _S)(t)


def idna_enc(t):
    return uf("enc_idna", _S, _S)(t)


def idna_enc_ok(t):
    return uf("idna_encodable", _S, z3.BoolSort())(t)


_orig_decode = METHODS[(SBytes, "decode")]


def _decode(it, s, *a, **k):
    enc = (a[0].concrete() if a else (k["encoding"].concrete() if "encoding" in k else "utf-8")).lower()
    if enc != "idna" or s.concrete() is not None or len(a) > 1 or "errors" in k:
        return _orig_decode(it, s, *a, **k)
    it.ex.note("assumed", "idna codec: " + IDNA_AXIOMS[0])
    t = s.t
    st = idna_dec_status(t)
    it.ex.assume(z3.And(st >= 0, st <= 2))
    if it.branch(SBool(st == 0)):
        return SStr(idna_dec(t))
    if it.branch(SBool(st == 1)):
        it.raise_(UnicodeDecodeError, "idna")
    it.raise_(UnicodeError, "idna")


METHODS[(SBytes, "decode")] = _decode

_orig_encode = METHODS[(SStr, "encode")]


def _encode(it, s, *a, **k):
    enc = (a[0].concrete() if a else (k["encoding"].concrete() if "encoding" in k else "utf-8")).lower()
    if enc != "idna" or s.concrete() is not None or len(a) > 1 or "errors" in k:
        return _orig_encode(it, s, *a, **k)
    it.ex.note("assumed", "idna codec: " + IDNA_AXIOMS[1])
    t = s.t
    ok = idna_enc_ok(t)
    r = idna_enc(t)
    it.ex.assume(z3.Implies(slen(t) == 0, z3.And(ok, slen(r) == 0)))
    if not it.branch(SBool(ok)):
        it.raise_(UnicodeError, "idna")
    return SBytes(r)


METHODS[(SStr, "encode")] = _encode


# native oracles (only used to pick replayable models / conformance samples, never for proving)
def _o_bytes(s):
    return bytes(min(ord(c), 255) for c in s)


def _o_dec_status(s):
    try:
        _o_bytes(s).decode("idna")
        return 0
    except UnicodeDecodeError:
        return 1
    except UnicodeError:
        return 2


def _o_dec(s):
    try:
        return _o_bytes(s).decode("idna")
    except UnicodeError:
        return ""


def _o_enc_ok(s):
    try:
        s.encode("idna")
        return True
    except UnicodeError:
        return False


def _o_enc(s):
    try:
        return s.encode("idna")
    except UnicodeError:
        return b""


_lib.UF_ORACLES.update({"idna_dec_status": _o_dec_status, "dec_idna": _o_dec, "idna_encodable": _o_enc_ok, "enc_idna": _o_enc})


# ---------------------------------------------------------------------------------------------
# a | b for two symbolic non-negative ints: a + b - (a & b), with (a & b) a fresh n, 0 <= n <= min(a, b), and the
# instantiated lemma "a multiple of 2^k and b < 2^k (or vice versa) => a & b == 0" for k = 1..16.
# Sound over-approximation (n is otherwise unconstrained); exact whenever the operands occupy disjoint bit ranges.

_orig_binop = _lib.binop


def _binop(it, op, a, b):
    import ast as _ast

    if isinstance(op, _ast.BitOr) and isinstance(a, SInt) and isinstance(b, SInt) and a.concrete() is None and b.concrete() is None:
        it.ex.note("assumed", "bitwise | of two symbolic ints: operands are non-negative; modelled as a + b - (a & b) with disjoint-bit-range lemmas (k <= 16)")
        n = it.fresh("int", "and")
        it.ex.assume(z3.And(n.t >= 0, n.t <= a.t, n.t <= b.t))
        for k in range(1, 17):
            p = 1 << k
            it.ex.assume(z3.Implies(z3.Or(z3.And(a.t % p == 0, b.t >= 0, b.t < p), z3.And(b.t % p == 0, a.t >= 0, a.t < p)), n.t == 0))
        return SInt(a.t + b.t - n.t)
    return _orig_binop(it, op, a, b)


_lib.binop = _binop
