"""Trusted library contracts for the addon properties C19/C20/C22/C23/C24.

* logging: calls are no-ops (no modelled state).
* str/bytes.rsplit(sep, 1) (1-character separator) and split() / split(sep): *exact* on structured strings, i.e. concatenations
  of literals and symbolic pieces that provably contain no separator (decided by regex-membership queries); rsplit falls back to
  a characterisation through fresh parts, split to the models loaded before this one.
* ipaddress.ip_address(str): parsing is an uninterpreted pair (ip_version, ip_value) of the text; is_loopback/is_private/is_global
  are uninterpreted predicates of the numeric value; IPv4-mapped IPv6 (RFC 4291 §2.5.5.2) is exact on the numeric value.
* re.search(pattern text, subject, flags): an uninterpreted predicate re_search3(pattern, flags, subject) (user rules).
* base64 (b64encode / b2a_base64 / a2b_base64): uninterpreted, a2b_base64(b64encode(x)) == x and the alphabet fact instantiated on
  every encoding term; exact algebraic identities applied syntactically: utf8-decode(utf8-encode(u)) == u,
  a2b_base64(b64encode(x)) == x, ASCII-compatible encode/decode of base64 text and of provably-ASCII strings is the identity.
* lib.UF_ORACLES entries (real library functions) for all of the above: used only by vc.Explorer.realistic_model to produce
  counter-models / conformance samples that agree with the real library (scenario option `candidates`), never for proving.

Property modules use the same uninterpreted symbols through `lib.uf(name, ...)`; natively they call the real library.
"""
from __future__ import annotations

import ipaddress
import logging

import z3

from .lib import *  # noqa: F401,F403
from .lib import uf, function, method, METHODS, FUNCTIONS, CLASS_MODELS, _S, _I, bytes_range, UF_ORACLES, exc_obj_from
from .core import _b, _z, _zi
from . import interp as I

_B = z3.BoolSort()

# ---------------------------------------------------------------------------------------------
# logging


def _noop(it, *a, **k):
    return NONE


for _f in (logging.debug, logging.info, logging.warning, logging.error, logging.critical, logging.exception, logging.log,
           logging.Logger.debug, logging.Logger.info, logging.Logger.warning, logging.Logger.error, logging.Logger.critical,
           logging.Logger.exception, logging.Logger.log):
    FUNCTIONS[id(_f)] = (_f, _noop)


# ---------------------------------------------------------------------------------------------
# rsplit(sep, 1)


def _flatten_concat(t):
    if z3.is_app(t) and t.decl().kind() == z3.Z3_OP_SEQ_CONCAT:
        out = []
        for c in t.children():
            out.extend(_flatten_concat(c))
        return out
    return [t]


def _concat_terms(ts):
    ts = [t for t in ts if not (z3.is_string_value(t) and str_value_to_pystr(t) == "")]
    if not ts:
        return z3.StringVal("")
    return ts[0] if len(ts) == 1 else z3.Concat(*ts)


def _rsplit(it, s, *a, **k):
    c = s.concrete()
    if c is not None and all(x.concrete() is not None for x in a):
        return lift(c.rsplit(*[x.concrete() for x in a]))
    maxsplit = a[1].concrete() if len(a) > 1 else (k["maxsplit"].concrete() if "maxsplit" in k else -1)
    if not a or isinstance(a[0], SNoneT):
        raise Unsupported("whitespace rsplit on symbolic string")
    sep = a[0].concrete()
    if maxsplit != 1 or sep is None or len(sep) != 1:
        raise Unsupported("rsplit of a symbolic string is modelled for a concrete 1-character separator and maxsplit=1 only")
    T = type(s)
    sept = a[0].t
    # exact structural case: s is a concatenation p0 ++ ... ++ pn in which the last piece that can contain sep is a literal
    # (every later piece provably does not contain sep): split inside that literal.
    pieces = _flatten_concat(simp(s.t))
    if len(pieces) > 1:
        for k in range(len(pieces) - 1, -1, -1):
            p = pieces[k]
            if z3.is_string_value(p):
                lit = str_value_to_pystr(p)
                j = lit.rfind(sep if isinstance(sep, str) else sep.decode("latin-1"))
                if j < 0:
                    continue
                head = _concat_terms(pieces[:k] + [z3.StringVal(lit[:j])])
                tail = _concat_terms([z3.StringVal(lit[j + 1:])] + pieces[k + 1:])
                return SList([T(simp(head)), T(simp(tail))])
            if it.ex.feasible(z3.Contains(p, sept)):
                break  # cannot exclude sep in a later symbolic piece: use the general model
    if it.branch(SBool(z3.Contains(s.t, sept))):
        # s == head + sep + tail with sep not in tail  (unique decomposition for a 1-character separator)
        head = it.fresh("bytes" if T is SBytes else "str", "rsplit_head")
        tail = it.fresh("bytes" if T is SBytes else "str", "rsplit_tail")
        it.ex.assume(s.t == z3.Concat(head.t, sept, tail.t))
        it.ex.assume(z3.Not(z3.Contains(tail.t, sept)))
        return SList([head, tail])
    return SList([s])


METHODS[(SStr, "rsplit")] = _rsplit
METHODS[(SBytes, "rsplit")] = _rsplit


# ---------------------------------------------------------------------------------------------
# ipaddress

TWO32 = 2 ** 32
TWO128 = 2 ** 128


def ip_version_t(s):
    return uf("ip_version", _S, _I)(s)


def ip_value_t(s):
    return uf("ip_value", _S, _I)(s)


def ip_pred_t(name, version, value):
    """uninterpreted classification predicate `name` in {is_loopback, is_private, is_global} of an IPv<version> value"""
    return uf(f"ip{version}_{name}", _I, _B)(value)


def _real_ip(s):
    try:
        return ipaddress.ip_address(s)
    except ValueError:
        return None


UF_ORACLES["ip_version"] = lambda s: (_real_ip(s).version if _real_ip(s) is not None else 0)
UF_ORACLES["ip_value"] = lambda s: (int(_real_ip(s)) if _real_ip(s) is not None else 0)
for _p in ("is_loopback", "is_private", "is_global"):
    UF_ORACLES[f"ip4_{_p}"] = (lambda v, _p=_p: bool(getattr(ipaddress.IPv4Address(v), _p)) if 0 <= v < TWO32 else False)
    UF_ORACLES[f"ip6_{_p}"] = (lambda v, _p=_p: bool(getattr(ipaddress.IPv6Address(v), _p)) if 0 <= v < TWO128 else False)


def mk_ip_obj(it, version, value):
    cls = ipaddress.IPv4Address if version == 4 else ipaddress.IPv6Address
    f = {"_ip": SInt(value)}
    for p in ("is_loopback", "is_private", "is_global"):
        f[p] = SBool(ip_pred_t(p, version, value))
    f["is_unspecified"] = SBool(value == 0)  # exact: 0.0.0.0 / :: are the all-zero addresses (RFC 1122 §3.2.1.3, RFC 4291 §2.5.2)
    if version == 6:
        mapped = (value / TWO32) == 0xFFFF
        f["ipv4_mapped"] = SUnion([(mapped, mk_ip_obj(it, 4, value % TWO32)), (z3.Not(mapped), NONE)])
    return SObj(cls, f)


@function(ipaddress.ip_address)
def f_ip_address(it, address):
    a = it.resolve(address)
    if not isinstance(a, SStr):
        raise Unsupported("ipaddress.ip_address is modelled for str arguments only")
    c = a.concrete()
    if c is not None:
        try:
            o = ipaddress.ip_address(c)
        except ValueError as e:
            raise I.PyExc(exc_obj_from(e))
        return mk_ip_obj(it, o.version, z3.IntVal(int(o)))
    it.ex.note("assumed", "ipaddress.ip_address(text): (ip_version, ip_value) are uninterpreted functions of the text; "
                          "is_loopback/is_private/is_global are uninterpreted predicates of the numeric value")
    ver, val = ip_version_t(a.t), ip_value_t(a.t)
    if it.branch(SBool(ver == 4)):
        it.ex.assume(z3.And(val >= 0, val < TWO32))
        return mk_ip_obj(it, 4, val)
    if it.branch(SBool(ver == 6)):
        it.ex.assume(z3.And(val >= 0, val < TWO128))
        return mk_ip_obj(it, 6, val)
    it.raise_(ValueError, "does not appear to be an IPv4 or IPv6 address")


UF_ORACLES.setdefault("lower", lambda s: s.lower())
UF_ORACLES.setdefault("upper", lambda s: s.upper())


# ---------------------------------------------------------------------------------------------
# split(): exact on *structured* strings (concatenations of literals and symbolic pieces that provably contain no separator)

WS_STR = "\x09\x0a\x0b\x0c\x0d\x1c\x1d\x1e\x1f\x20\x85\xa0\u1680\u2000\u2001\u2002\u2003\u2004\u2005\u2006\u2007\u2008\u2009\u200a\u2028\u2029\u202f\u205f\u3000"  # every code point with str.isspace()
WS_BYTES = " \t\n\r\x0b\x0c"

try:  # extension modules are loaded in alphabetical order and libx_dns also wraps split(): load it first so that this wrapper is outermost
    from . import libx_dns as _libx_dns  # noqa: F401
except ImportError:  # pragma: no cover
    pass
_lib_split = METHODS[(SStr, "split")]


def _free_of(it, p, chars):
    """pc => p contains none of chars (proved by the solver; unknown counts as 'cannot exclude')"""
    anyc = z3.Star(z3.AllChar(z3.ReSort(z3.StringSort())))
    cls = z3.Union(*[z3.Re(z3.StringVal(c)) for c in chars]) if len(chars) > 1 else z3.Re(z3.StringVal(chars))
    return not it.ex.feasible(z3.InRe(p, z3.Concat(anyc, cls, anyc)))  # regex form: decided quickly by the sequence solver


def _structured_split(it, s, seps, keep_empty):
    """tokens of s split at every character in `seps` (keep_empty: str.split(sep) semantics, else str.split() semantics),
    or None if s is not a concatenation whose symbolic pieces are provably free of separators."""
    pieces = _flatten_concat(simp(s.t))
    atoms = []  # "SEP" | z3 term (separator-free, possibly empty only when keep_empty)
    for p in pieces:
        if z3.is_string_value(p):
            for ch in str_value_to_pystr(p):
                atoms.append("SEP" if ch in seps else z3.StringVal(ch))
            continue
        if not _free_of(it, p, seps):
            return None
        if not keep_empty:
            # whitespace split drops empty tokens: whether this piece contributes must be decided on this path
            if not it.branch(SBool(z3.Length(p) > 0)):
                continue
        atoms.append(p)
    T = type(s)
    tokens, cur, have = [], [], False
    for a in atoms:
        if isinstance(a, str):
            if keep_empty or have:
                tokens.append(T(simp(_concat_terms(cur))))
            cur, have = [], False
        else:
            cur.append(a)
            have = True
    if keep_empty or have:
        tokens.append(T(simp(_concat_terms(cur))))
    return SList(tokens)


def _structured_split_first(it, s, sep):
    """[head, tail] of s.split(sep, 1) when the first piece of the concatenation s that can contain the 1-character sep is a literal
    (all earlier symbolic pieces provably do not contain it); None otherwise"""
    pieces = _flatten_concat(simp(s.t))
    if len(pieces) < 2:
        return None
    T = type(s)
    for k, p in enumerate(pieces):
        if z3.is_string_value(p):
            lit = str_value_to_pystr(p)
            j = lit.find(sep)
            if j < 0:
                continue
            head = _concat_terms(pieces[:k] + [z3.StringVal(lit[:j])])
            tail = _concat_terms([z3.StringVal(lit[j + 1:])] + pieces[k + 1:])
            return SList([T(simp(head)), T(simp(tail))])
        if not _free_of(it, p, sep):
            return None
    return None


def _split_x(it, s, *a, **k):
    c = s.concrete()
    if c is None:
        maxsplit = a[1].concrete() if len(a) > 1 else (k["maxsplit"].concrete() if "maxsplit" in k else -1)
        if maxsplit == 1 and a and not isinstance(a[0], SNoneT):
            sep = a[0].concrete()
            if sep is not None and len(sep) == 1:
                r = _structured_split_first(it, s, sep if isinstance(sep, str) else sep.decode("latin-1"))
                if r is not None:
                    return r
        if maxsplit == -1:
            if not a or isinstance(a[0], SNoneT):
                r = _structured_split(it, s, WS_STR if isinstance(s, SStr) else WS_BYTES, keep_empty=False)
                if r is not None:
                    return r
            else:
                sep = a[0].concrete()
                if sep is not None and len(sep) == 1:
                    r = _structured_split(it, s, sep if isinstance(sep, str) else sep.decode("latin-1"), keep_empty=True)
                    if r is not None:
                        return r
    return _lib_split(it, s, *a, **k)


METHODS[(SStr, "split")] = _split_x
METHODS[(SBytes, "split")] = _split_x


# ---------------------------------------------------------------------------------------------
# base64: uninterpreted, with decode(encode(x)) == x instantiated on every encoding term that is built

import base64 as _base64
import binascii as _binascii

B64_ALPHABET = z3.Union(z3.Range("A", "Z"), z3.Range("a", "z"), z3.Range("0", "9"), z3.Re("+"), z3.Re("/"), z3.Re("="))


def b64encode_t(x):
    return uf("b64encode", _S, _S)(x)


def a2b_t(x):
    return uf("a2b_base64", _S, _S)(x)


def b64_valid_t(x):
    return uf("b64_valid", _S, _B)(x)


def b64_axioms(x):
    """true facts about e = b64encode(x): decodes back to x, is accepted, is made of the base64 alphabet, is empty iff x is"""
    e = b64encode_t(x)
    return [a2b_t(e) == x, b64_valid_t(e), z3.InRe(e, z3.Star(B64_ALPHABET)), (z3.Length(e) == 0) == (z3.Length(x) == 0),
            a2b_t(z3.Concat(e, z3.StringVal("\n"))) == x, b64_valid_t(z3.Concat(e, z3.StringVal("\n")))]


@function(_base64.b64encode)
def f_b64encode(it, data, altchars=None):
    d = it.resolve(data)
    if not isinstance(d, SBytes) or altchars is not None:
        raise Unsupported("b64encode of non-bytes / altchars")
    c = d.concrete()
    it.ex.note("assumed", "base64: b64encode/a2b_base64 are uninterpreted with a2b_base64(b64encode(x)) == x and b64encode(x) over the base64 alphabet")
    for ax in b64_axioms(d.t):
        it.ex.assume(ax)
    if c is not None:
        it.ex.assume(b64encode_t(d.t) == bytes_val(_base64.b64encode(c)))
    return SBytes(b64encode_t(d.t))


@function(_binascii.b2a_base64)
def f_b2a_base64(it, data, **k):
    d = it.resolve(data)
    if not isinstance(d, SBytes) or k:
        raise Unsupported("b2a_base64 of non-bytes / newline=")
    it.ex.note("assumed", "base64: b64encode/a2b_base64 are uninterpreted with a2b_base64(b64encode(x)) == x and b64encode(x) over the base64 alphabet")
    for ax in b64_axioms(d.t):
        it.ex.assume(ax)
    return SBytes(z3.Concat(b64encode_t(d.t), z3.StringVal("\n")))


@function(_binascii.a2b_base64)
def f_a2b_base64(it, data, **k):
    d = it.resolve(data)
    if isinstance(d, SStr):
        d = SBytes(d.t)  # ASCII str arguments are accepted
    if not isinstance(d, SBytes):
        raise Unsupported("a2b_base64 argument")
    c = d.concrete()
    if c is not None:
        try:
            return lift(_binascii.a2b_base64(c))
        except _binascii.Error as e:
            raise I.PyExc(I.exc_obj(_binascii.Error, str(e)))
    if not it.branch(SBool(b64_valid_t(d.t))):
        it.raise_(_binascii.Error, "Incorrect padding")
    r = a2b_t(d.t)
    it.ex.assume(bytes_range(r))
    return SBytes(r)


def _l1(s):
    return s.encode("latin-1")


def _try(f, default):
    def g(*a):
        try:
            return f(*a)
        except Exception:
            return default
    return g


UF_ORACLES["b64encode"] = lambda s: _base64.b64encode(_l1(s))
UF_ORACLES["a2b_base64"] = _try(lambda s: _binascii.a2b_base64(_l1(s)), b"")
UF_ORACLES["b64_valid"] = _try(lambda s: (_binascii.a2b_base64(_l1(s)), True)[1], False)
UF_ORACLES["encode_utf-8_strict"] = _try(lambda s: s.encode("utf-8"), b"")
UF_ORACLES["encodable_utf-8"] = _try(lambda s: (s.encode("utf-8"), True)[1], False)
UF_ORACLES["decode_utf-8_replace"] = lambda s: _l1(s).decode("utf-8", "replace")
UF_ORACLES["decode_utf-8_surrogateescape"] = lambda s: _l1(s).decode("utf-8", "surrogateescape")
UF_ORACLES["decodable_utf-8"] = _try(lambda s: (_l1(s).decode("utf-8"), True)[1], False)
UF_ORACLES["decode_utf-8_strict"] = _try(lambda s: _l1(s).decode("utf-8"), "")


# ---------------------------------------------------------------------------------------------
# exact algebraic identities of the codecs, applied syntactically before falling back to lib's uninterpreted models:
#   utf8-decode(utf8-encode(u)) == u (any error handler: the input is valid UTF-8);  a2b_base64(b64encode(x)[+"\n"]) == x;
#   str(b64encode(x)).encode(<ascii-compatible codec>) == b64encode(x)  (base64 text is ASCII)

_lib_decode = METHODS[(SBytes, "decode")]
_lib_encode = METHODS[(SStr, "encode")]
_UTF8_NAMES = ("utf-8", "utf8", "utf_8")
_ASCII_COMPAT = _UTF8_NAMES + ("ascii", "latin-1", "latin1", "iso-8859-1")


def _is_app_of(t, name):
    return z3.is_app(t) and t.decl().kind() == z3.Z3_OP_UNINTERPRETED and t.decl().name() == name and t.num_args() == 1


def _b64_text_of(t):
    """x if t is b64encode(x) or b64encode(x) ++ "\\n", else None"""
    t = simp(t)
    if _is_app_of(t, "b64encode"):
        return t.arg(0)
    ps = _flatten_concat(t)
    if len(ps) == 2 and _is_app_of(ps[0], "b64encode") and z3.is_string_value(ps[1]) and str_value_to_pystr(ps[1]) == "\n":
        return ps[0].arg(0)
    return None


def _codec_name(a, k, pos, key, default):
    v = a[pos] if len(a) > pos else k.get(key)
    return default if v is None else v.concrete()


def _decode_x(it, s, *a, **k):
    enc = (_codec_name(a, k, 0, "encoding", "utf-8") or "").lower()
    t = simp(s.t)
    if enc in _UTF8_NAMES and _is_app_of(t, "encode_utf-8_strict"):
        return SStr(t.arg(0))
    if enc in _ASCII_COMPAT and _b64_text_of(t) is not None:
        return SStr(t)
    return _lib_decode(it, s, *a, **k)


def _encode_x(it, s, *a, **k):
    enc = (_codec_name(a, k, 0, "encoding", "utf-8") or "").lower()
    if enc in _ASCII_COMPAT and _b64_text_of(s.t) is not None:
        return SBytes(simp(s.t))
    if enc in _ASCII_COMPAT and s.concrete() is None and not it.ex.feasible(z3.Not(z3.InRe(s.t, z3.Star(z3.Range(chr(0), chr(127)))))):
        return SBytes(simp(s.t))  # provably pure ASCII (e.g. str(int)): every ASCII-compatible codec is the identity
    return _lib_encode(it, s, *a, **k)


METHODS[(SBytes, "decode")] = _decode_x
METHODS[(SStr, "encode")] = _encode_x

_f_a2b_plain = f_a2b_base64


@function(_binascii.a2b_base64)
def f_a2b_base64_x(it, data, **k):
    d = it.resolve(data)
    if isinstance(d, (SBytes, SStr)) and d.concrete() is None:
        x = _b64_text_of(d.t)
        if x is not None:
            return SBytes(x)
    return _f_a2b_plain(it, data, **k)


# ---------------------------------------------------------------------------------------------
# re.search(pattern, text, flags) with a pattern *text* (user rules such as ignore_hosts/allow_hosts, possibly symbolic):
# an uninterpreted predicate re_search3(pattern, flags, text); the match object is opaque (truthy).

import re as _re


def re_search3_t(pattern_t, flags: int, text_t):
    return uf("re_search3", _S, _I, _S, _B)(pattern_t, z3.IntVal(int(flags)), text_t)


@function(_re.search)
def f_re_search(it, pattern, string, flags=None):
    p = it.resolve(pattern)
    s = it.resolve(string)
    fl = 0 if flags is None else it.resolve(flags)
    if not isinstance(fl, int):
        flc = fl.concrete() if hasattr(fl, "concrete") else None
        if flc is None:
            raise Unsupported("re.search with symbolic flags")
        fl = int(flc)
    if isinstance(p, SConst) and isinstance(p.obj, _re.Pattern):
        return it.call_value(SConst(p.obj.search), [s], {})
    if not isinstance(p, (SStr, SBytes)) or not isinstance(s, (SStr, SBytes)):
        raise Unsupported("re.search arguments")
    if isinstance(p, SBytes) != isinstance(s, SBytes):
        it.raise_(TypeError, "cannot use a string pattern on a bytes-like object")
    it.ex.note("assumed", "re.search(pattern text, subject, flags) is an uninterpreted predicate re_search3(pattern, flags, subject)")
    if it.branch(SBool(re_search3_t(p.t, fl, s.t))):
        return SObj(_re.Match, {"string": s})
    return NONE


def _oracle_re_search3(p, fl, s):
    try:
        return _re.search(p, s, fl) is not None
    except _re.error:
        return False


UF_ORACLES["re_search3"] = _oracle_re_search3


# ---------------------------------------------------------------------------------------------
# bytes.lstrip(chars): exact.  Literal prefixes are peeled syntactically; a symbolic piece that provably is empty or starts with
# a character outside `chars` ends the strip; otherwise the unique decomposition s == lead ++ r (lead in [chars]*, r empty or
# starting outside chars) is introduced with fresh strings.  Without an argument / symbolic argument: uninterpreted suffix (as before).

def _lstrip_bytes(it, s, *a):
    c = s.concrete()
    if c is not None and all(x.concrete() is not None for x in a):
        return lift(c.lstrip(*[x.concrete() for x in a]))
    chars = a[0].concrete() if a and not isinstance(a[0], SNoneT) else None
    if chars is None or len(chars) == 0:
        f = uf("lstrip" + ("_" + repr(chars) if a else ""), _S, _S)
        r = f(s.t)
        it.ex.assume(z3.SuffixOf(r, s.t))
        it.ex.note("lib", "lstrip (uninterpreted; result is a suffix of the input)")
        return type(s)(r)
    cs = chars.decode("latin-1") if isinstance(chars, bytes) else chars
    anyc = z3.Star(z3.AllChar(z3.ReSort(_S)))
    cls = z3.Union(*[z3.Re(z3.StringVal(ch)) for ch in cs]) if len(cs) > 1 else z3.Re(z3.StringVal(cs))
    pieces = _flatten_concat(simp(s.t))
    T = type(s)
    while pieces:
        p = pieces[0]
        if z3.is_string_value(p):
            lit = str_value_to_pystr(p).lstrip(cs)
            if lit:
                return T(simp(_concat_terms([z3.StringVal(lit)] + pieces[1:])))
            pieces = pieces[1:]
            continue
        if not it.branch(SBool(z3.Length(p) > 0)):
            pieces = pieces[1:]
            continue
        if not it.ex.feasible(z3.InRe(p, z3.Concat(cls, anyc))):
            return T(simp(_concat_terms(pieces)))
        rest = _concat_terms(pieces)
        lead = it.fresh("bytes" if T is SBytes else "str", "lstrip_lead")
        r = it.fresh("bytes" if T is SBytes else "str", "lstrip_rest")
        it.ex.assume(rest == z3.Concat(lead.t, r.t))
        it.ex.assume(z3.InRe(lead.t, z3.Star(cls)))
        it.ex.assume(z3.InRe(r.t, z3.Union(z3.Re(z3.StringVal("")), z3.Concat(z3.Diff(z3.AllChar(z3.ReSort(_S)), cls), anyc))))
        return r
    return T(z3.StringVal(""))


METHODS[(SBytes, "lstrip")] = _lstrip_bytes
