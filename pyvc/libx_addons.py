"""Trusted library contracts for the addon properties C19/C20/C22/C23/C24.

* logging: calls are no-ops (no modelled state).
* str/bytes.rsplit(sep, 1) for a 1-character separator: exact (characterised through fresh parts).
* ipaddress.ip_address(str): parsing is an uninterpreted pair (ip_version, ip_value) of the text; classification
  predicates (is_loopback/is_private/is_global) are uninterpreted predicates of the numeric value; IPv4-mapped IPv6
  (RFC 4291 §2.5.5.2: 80 zero bits, 16 one bits, 32 address bits) is modelled exactly on the numeric value.
* re.search / re.match with a *symbolic or user-supplied* pattern: an uninterpreted predicate re_matches(pattern, text).
* base64 (binascii.a2b_base64 / b2a_base64 / base64.b64encode): uninterpreted functions with the decode(encode(x)) == x axiom.

Property modules use the same uninterpreted symbols through `lib.uf(name, ...)`; natively they call the real library.
"""
from __future__ import annotations

import ipaddress
import logging

import z3

from .lib import *  # noqa: F401,F403
from .lib import uf, function, method, METHODS, FUNCTIONS, CLASS_MODELS, _S, _I, bytes_range, UF_ORACLES, exc_obj_from
from .core import _b, _z, _zi
from . import interp as I

_B = z3.BoolSort()

# ---------------------------------------------------------------------------------------------
# logging


def _noop(it, *a, **k):
    return NONE


for _f in (logging.debug, logging.info, logging.warning, logging.error, logging.critical, logging.exception, logging.log,
           logging.Logger.debug, logging.Logger.info, logging.Logger.warning, logging.Logger.error, logging.Logger.critical,
           logging.Logger.exception, logging.Logger.log):
    FUNCTIONS[id(_f)] = (_f, _noop)


# ---------------------------------------------------------------------------------------------
# rsplit(sep, 1)


def _flatten_concat(t):
    if z3.is_app(t) and t.decl().kind() == z3.Z3_OP_SEQ_CONCAT:
        out = []
        for c in t.children():
            out.extend(_flatten_concat(c))
        return out
    return [t]


def _concat_terms(ts):
    ts = [t for t in ts if not (z3.is_string_value(t) and str_value_to_pystr(t) == "")]
    if not ts:
        return z3.StringVal("")
    return ts[0] if len(ts) == 1 else z3.Concat(*ts)


def _rsplit(it, s, *a, **k):
    c = s.concrete()
    if c is not None and all(x.concrete() is not None for x in a):
        return lift(c.rsplit(*[x.concrete() for x in a]))
    maxsplit = a[1].concrete() if len(a) > 1 else (k["maxsplit"].concrete() if "maxsplit" in k else -1)
    if not a or isinstance(a[0], SNoneT):
        raise Unsupported("whitespace rsplit on symbolic string")
    sep = a[0].concrete()
    if maxsplit != 1 or sep is None or len(sep) != 1:
        raise Unsupported("rsplit of a symbolic string is modelled for a concrete 1-character separator and maxsplit=1 only")
    T = type(s)
    sept = a[0].t
    # exact structural case: s is a concatenation p0 ++ ... ++ pn in which the last piece that can contain sep is a literal
    # (every later piece provably does not contain sep): split inside that literal.
    pieces = _flatten_concat(simp(s.t))
    if len(pieces) > 1:
        for k in range(len(pieces) - 1, -1, -1):
            p = pieces[k]
            if z3.is_string_value(p):
                lit = str_value_to_pystr(p)
                j = lit.rfind(sep if isinstance(sep, str) else sep.decode("latin-1"))
                if j < 0:
                    continue
                head = _concat_terms(pieces[:k] + [z3.StringVal(lit[:j])])
                tail = _concat_terms([z3.StringVal(lit[j + 1:])] + pieces[k + 1:])
                return SList([T(simp(head)), T(simp(tail))])
            if it.ex.feasible(z3.Contains(p, sept)):
                break  # cannot exclude sep in a later symbolic piece: use the general model
    if it.branch(SBool(z3.Contains(s.t, sept))):
        # s == head + sep + tail with sep not in tail  (unique decomposition for a 1-character separator)
        head = it.fresh("bytes" if T is SBytes else "str", "rsplit_head")
        tail = it.fresh("bytes" if T is SBytes else "str", "rsplit_tail")
        it.ex.assume(s.t == z3.Concat(head.t, sept, tail.t))
        it.ex.assume(z3.Not(z3.Contains(tail.t, sept)))
        return SList([head, tail])
    return SList([s])


METHODS[(SStr, "rsplit")] = _rsplit
METHODS[(SBytes, "rsplit")] = _rsplit


# ---------------------------------------------------------------------------------------------
# ipaddress

TWO32 = 2 ** 32
TWO128 = 2 ** 128


def ip_version_t(s):
    return uf("ip_version", _S, _I)(s)


def ip_value_t(s):
    return uf("ip_value", _S, _I)(s)


def ip_pred_t(name, version, value):
    """uninterpreted classification predicate `name` in {is_loopback, is_private, is_global} of an IPv<version> value"""
    return uf(f"ip{version}_{name}", _I, _B)(value)


def _real_ip(s):
    try:
        return ipaddress.ip_address(s)
    except ValueError:
        return None


UF_ORACLES["ip_version"] = lambda s: (_real_ip(s).version if _real_ip(s) is not None else 0)
UF_ORACLES["ip_value"] = lambda s: (int(_real_ip(s)) if _real_ip(s) is not None else 0)
for _p in ("is_loopback", "is_private", "is_global"):
    UF_ORACLES[f"ip4_{_p}"] = (lambda v, _p=_p: bool(getattr(ipaddress.IPv4Address(v), _p)) if 0 <= v < TWO32 else False)
    UF_ORACLES[f"ip6_{_p}"] = (lambda v, _p=_p: bool(getattr(ipaddress.IPv6Address(v), _p)) if 0 <= v < TWO128 else False)


def mk_ip_obj(it, version, value):
    cls = ipaddress.IPv4Address if version == 4 else ipaddress.IPv6Address
    f = {"_ip": SInt(value)}
    for p in ("is_loopback", "is_private", "is_global"):
        f[p] = SBool(ip_pred_t(p, version, value))
    if version == 6:
        mapped = (value / TWO32) == 0xFFFF
        f["ipv4_mapped"] = SUnion([(mapped, mk_ip_obj(it, 4, value % TWO32)), (z3.Not(mapped), NONE)])
    return SObj(cls, f)


@function(ipaddress.ip_address)
def f_ip_address(it, address):
    a = it.resolve(address)
    if not isinstance(a, SStr):
        raise Unsupported("ipaddress.ip_address is modelled for str arguments only")
    c = a.concrete()
    if c is not None:
        try:
            o = ipaddress.ip_address(c)
        except ValueError as e:
            raise I.PyExc(exc_obj_from(e))
        return mk_ip_obj(it, o.version, z3.IntVal(int(o)))
    it.ex.note("assumed", "ipaddress.ip_address(text): (ip_version, ip_value) are uninterpreted functions of the text; "
                          "is_loopback/is_private/is_global are uninterpreted predicates of the numeric value")
    ver, val = ip_version_t(a.t), ip_value_t(a.t)
    if it.branch(SBool(ver == 4)):
        it.ex.assume(z3.And(val >= 0, val < TWO32))
        return mk_ip_obj(it, 4, val)
    if it.branch(SBool(ver == 6)):
        it.ex.assume(z3.And(val >= 0, val < TWO128))
        return mk_ip_obj(it, 6, val)
    it.raise_(ValueError, "does not appear to be an IPv4 or IPv6 address")


UF_ORACLES.setdefault("lower", lambda s: s.lower())
UF_ORACLES.setdefault("upper", lambda s: s.upper())
