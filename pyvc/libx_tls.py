"""Trusted library contracts for the TLS / certificate properties C13-C17.

* list methods append / pop(0) / pop() on a symbolic-LENGTH sequence (vc.sym_seq) that the scenario marked as a
  mutable list (`seq.mutable_list = True`): in-place update of the sequence term (Python list reference semantics).
* record-header predicates (net.tls.starts_like_tls_record / starts_like_dtls_record) as uninterpreted predicates with the
  REAL predicates as oracles (replayable counter-models / conformance samples); used by props/C13.py.
* datetime.datetime.now(): a symbolic instant (whole days) as props.tlsstub.SymTime; dict.fromkeys: ordered de-duplication.
* str.encode("idna"): result is pure ASCII (on top of the uninterpreted codec model of the other extension modules).
* ipaddress.v4_int_to_packed / v6_int_to_packed (`.packed`): exact big-endian bytes.
(str.split on dot-free labels uses the structural split models of libx_dns / libx_addons; cryptography's general-name and
extension classes are interpreted from their real source.)
"""
from __future__ import annotations

import z3

from .lib import *  # noqa: F401,F403
from .lib import uf, function, method, METHODS, FUNCTIONS, CLASS_MODELS, BUILTIN_METHODS, builtin_method, _S, _I, bytes_range, exc_obj_from
from .core import _b, _z, _zi
from . import interp as I

_B = z3.BoolSort()

# ---------------------------------------------------------------------------------------------
# mutable symbolic-length lists


def _need_mutable(l):
    if not getattr(l, "mutable_list", False):
        raise Unsupported("list mutation on a symbolic-length sequence that the scenario did not mark as a mutable list")


@method(SSeq, "append")
def _sseq_append(it, l, x):
    _need_mutable(l)
    x = it.resolve(x)
    l.t = simp(z3.Concat(l.t, z3.Unit(_z(x))))
    return NONE


@method(SSeq, "pop")
def _sseq_pop(it, l, *a):
    _need_mutable(l)
    n = z3.Length(l.t)
    if not it.branch(SBool(n > 0)):
        it.raise_(IndexError, "pop from empty list")
    ic = it.resolve(a[0]).concrete() if a else -1
    if ic == 0:
        e = simp(l.t[0])
        l.t = simp(z3.SubSeq(l.t, 1, n - 1))
        return l.wrap(e)
    if ic == -1:
        e = simp(l.t[n - 1])
        l.t = simp(z3.SubSeq(l.t, 0, n - 1))
        return l.wrap(e)
    raise Unsupported("pop position on a symbolic-length list (only 0 and -1)")


# ---------------------------------------------------------------------------------------------
# record-header predicates as uninterpreted predicates of the header bytes (props/C13.py abstracts starts_like_tls_record /
# starts_like_dtls_record, which have their own contracts, in the record-reader scenarios); the oracles evaluate the REAL
# predicates of the tree under verification so that counter-models and conformance samples replay natively.
from .lib import UF_ORACLES


def _real_pred(name):
    def f(s):
        import importlib

        m = importlib.import_module("mitmproxy.net.tls")
        return bool(getattr(m, name)(s.encode("latin-1")))

    return f


UF_ORACLES["tls_record_header_accepted"] = _real_pred("starts_like_tls_record")
UF_ORACLES["dtls_record_header_accepted"] = _real_pred("starts_like_dtls_record")


# ---------------------------------------------------------------------------------------------
# datetime.datetime.now(): a symbolic point in time (days since an arbitrary epoch, fresh symbol `now`), as an object of
# props.tlsstub.SymTime (supports `+ timedelta`); used by the certs.dummy_cert contract (C16).
import datetime as _dt

from . import lib as _lib

_prev_lookup_tls = _lib.lookup_function


def _now_model(it, *a, **k):
    import importlib

    st = importlib.import_module("props.tlsstub")
    t = it.fresh("int", "now")
    it.ex.note("assumed", "datetime.datetime.now() is an arbitrary point in time (whole days; symbolic)")
    return SObj(st.SymTime, {"days": t})


def _lookup_function_tls(o):
    if getattr(o, "__name__", None) == "now" and getattr(o, "__self__", None) is _dt.datetime:
        return _now_model
    return _prev_lookup_tls(o)


_lib.lookup_function = _lookup_function_tls


# dict.fromkeys(iterable): insertion-ordered de-duplication by == (forks on symbolic equality of the keys)
def _fromkeys_model(it, xs, value=NONE):
    d = SDict()
    for x in it.iterate(xs):
        _lib.dict_set(it, d, x, value)
    return d


_prev_lookup_tls2 = _lib.lookup_function


def _lookup_function_tls2(o):
    if getattr(o, "__name__", None) == "fromkeys" and getattr(o, "__self__", None) is dict:
        return _fromkeys_model
    return _prev_lookup_tls2(o)


_lib.lookup_function = _lookup_function_tls2


# ---------------------------------------------------------------------------------------------
# str.encode("idna"): uninterpreted A-label form (lib's generic codec model) + the fact that the result is pure ASCII
_prev_encode = METHODS[(SStr, "encode")]


def _encode_idna_ascii(it, s, *a, **k):
    r = _prev_encode(it, s, *a, **k)
    enc = (a[0].concrete() if a else (k["encoding"].concrete() if "encoding" in k else "utf-8")).lower()
    if enc == "idna" and isinstance(r, SBytes) and r.concrete() is None:
        it.ex.assume(z3.InRe(r.t, z3.Star(z3.Range(chr(0), chr(127)))))
        it.ex.note("assumed", "str.encode('idna') yields pure ASCII (A-labels)")
    return r


METHODS[(SStr, "encode")] = _encode_idna_ascii


def _oracle_try(f, default):
    def g(*a):
        try:
            return f(*a)
        except Exception:
            return default
    return g


UF_ORACLES.setdefault("encodable_idna", _oracle_try(lambda s: (s.encode("idna"), True)[1], False))
UF_ORACLES.setdefault("encode_idna_strict", _oracle_try(lambda s: s.encode("idna"), b""))
UF_ORACLES.setdefault("decodable_utf-8", _oracle_try(lambda s: (s.encode("latin-1").decode("utf-8"), True)[1], False))
UF_ORACLES.setdefault("decode_utf-8_strict", _oracle_try(lambda s: s.encode("latin-1").decode("utf-8"), ""))


# ---------------------------------------------------------------------------------------------
# ipaddress.IPv4Address.packed / IPv6Address.packed: big-endian bytes of the numeric value (exact)
import ipaddress as _ipa


def _int_to_packed(width):
    def f(it, address):
        a = it.resolve(address)
        if not it.branch(SBool(z3.And(a.t >= 0, a.t < 256 ** width))):
            it.raise_(ValueError, "Address negative or too large")
        parts = [z3.StrFromCode((a.t / (256 ** (width - 1 - i))) % 256) for i in range(width)]
        return SBytes(simp(z3.Concat(*parts)))
    return f


FUNCTIONS[id(_ipa.v4_int_to_packed)] = (_ipa.v4_int_to_packed, _int_to_packed(4))
FUNCTIONS[id(_ipa.v6_int_to_packed)] = (_ipa.v6_int_to_packed, _int_to_packed(16))
