"""Trusted library contracts: models of Python builtins / stdlib / third-party calls used by the
contracted functions.  Every model used in a run is listed in the evidence (`ex.note("lib", ...)`),
and the models with a non-trivial axiom are differential-tested against CPython by pyvc/lib_check.py.
"""
from __future__ import annotations

import ast
import enum
import socket
import struct

import z3

from .core import *  # noqa: F401,F403
from .core import _b, _z, _zi
from . import interp as I

# ---------------------------------------------------------------------------------------------
# uninterpreted functions (library behaviour we do not model; named so they show up in evidence)

_S = z3.StringSort()
_I = z3.IntSort()
UF = {}


def uf(name, *sorts):
    if name not in UF:
        UF[name] = z3.Function(name, *sorts)
    return UF[name]


UF_ORACLES = {}  # uf name -> python function computing the real library's value on concrete arguments


def eval_oracles(t, rounds=6):
    """Replace every application of an oracle'd uninterpreted function to concrete arguments by the real library's
    value (innermost first). Only used to obtain replayable models (vc.Explorer.realistic_model), never for proving."""
    for _ in range(rounds):
        subst, seen, stack = [], set(), [t]
        while stack:
            x = stack.pop()
            if x.get_id() in seen or not z3.is_app(x):
                continue
            seen.add(x.get_id())
            stack.extend(x.children())
            d = x.decl()
            if d.kind() == z3.Z3_OP_UNINTERPRETED and x.num_args() > 0 and d.name() in UF_ORACLES:
                args = [simp(a) for a in x.children()]
                if all(z3.is_int_value(a) or z3.is_string_value(a) or z3.is_true(a) or z3.is_false(a) for a in args):
                    py = [a.as_long() if z3.is_int_value(a) else str_value_to_pystr(a) if z3.is_string_value(a) else z3.is_true(a) for a in args]
                    r = UF_ORACLES[d.name()](*py)
                    rs = d.range()
                    val = z3.BoolVal(bool(r)) if rs == z3.BoolSort() else z3.IntVal(int(r)) if rs == z3.IntSort() else z3.StringVal(r) if isinstance(r, str) else bytes_val(bytes(r))
                    subst.append((x, val))
        if not subst:
            return t
        t = simp(z3.substitute(t, *subst))
    return t


def int_to_str(t):
    """str(n) for any int n (z3's int.to.str is only defined for n >= 0)."""
    return z3.If(t >= 0, z3.IntToStr(t), z3.Concat(z3.StringVal("-"), z3.IntToStr(-t)))


# ---------------------------------------------------------------------------------------------
# operators


def flag_like(v):
    return isinstance(v, SEnum) and issubclass(v.cls, enum.Flag)


def bit_and_const(t, mask: int):
    """t & mask for non-negative t and constant mask, as div/mod terms."""
    if mask < 0:
        # t & ~k == t - (t & k) for non-negative t (k = ~mask >= 0)
        return t - bit_and_const(t, ~mask)
    out = z3.IntVal(0)
    # group contiguous runs of ones
    bit = 0
    m = mask
    while m:
        if m & 1:
            run = 0
            while (m >> run) & 1:
                run += 1
            out = out + ((t / (1 << bit)) % (1 << run)) * (1 << bit)
            bit += run
            m >>= run
        else:
            bit += 1
            m >>= 1
    return out


_BINOP_DUNDER = {ast.Add: "add", ast.Sub: "sub", ast.Mult: "mul", ast.Div: "truediv", ast.FloorDiv: "floordiv", ast.Mod: "mod",
                 ast.BitAnd: "and", ast.BitOr: "or", ast.BitXor: "xor", ast.LShift: "lshift", ast.RShift: "rshift", ast.MatMult: "matmul"}


def binop(it, op, a, b):
    # user-defined operators on objects of repo classes: a.__op__(b), then b.__rop__(a)
    if (isinstance(a, SObj) or isinstance(b, SObj)) and type(op) in _BINOP_DUNDER:
        nm = _BINOP_DUNDER[type(op)]
        for o, other, name in ((a, b, f"__{nm}__"), (b, a, f"__r{nm}__")):
            if isinstance(o, SObj):
                m = it.find_method(o.cls, name)
                if m is not None:
                    r = it.resolve(it.call_ifunc(m, [o, other], {}))
                    if not (isinstance(r, SConst) and r.obj is NotImplemented):
                        return r
    # enums / flags
    if isinstance(a, SEnum) or isinstance(b, SEnum):
        ea = a if isinstance(a, SEnum) else b
        if flag_like(ea) or issubclass(ea.cls, int):
            ia = SInt(a.t) if isinstance(a, SEnum) else a
            ib = SInt(b.t) if isinstance(b, SEnum) else b
            r = binop(it, op, ia, ib)
            if flag_like(ea) and isinstance(op, (ast.BitAnd, ast.BitOr, ast.BitXor)) and isinstance(a, SEnum) and isinstance(b, SEnum):
                return SEnum(ea.cls, r.t)
            return r
        raise Unsupported("arithmetic on non-int enum")
    if isinstance(a, SBool):
        a = SInt(z3.If(a.t, 1, 0)) if not (isinstance(b, SBool) and isinstance(op, (ast.BitAnd, ast.BitOr, ast.BitXor))) else a
    if isinstance(b, SBool) and not isinstance(a, SBool):
        b = SInt(z3.If(b.t, 1, 0))
    if isinstance(a, SBool) and isinstance(b, SBool):
        if isinstance(op, ast.BitAnd):
            return SBool(z3.And(a.t, b.t))
        if isinstance(op, ast.BitOr):
            return SBool(z3.Or(a.t, b.t))
        if isinstance(op, ast.BitXor):
            return SBool(z3.Xor(a.t, b.t))
        a, b = SInt(z3.If(a.t, 1, 0)), SInt(z3.If(b.t, 1, 0))
    if isinstance(a, SInt) and isinstance(b, SInt):
        if isinstance(op, ast.Add):
            return SInt(a.t + b.t)
        if isinstance(op, ast.Sub):
            return SInt(a.t - b.t)
        if isinstance(op, ast.Mult):
            return SInt(a.t * b.t)
        if isinstance(op, (ast.FloorDiv, ast.Mod)):
            if not it.branch(SBool(b.t != 0)):
                it.raise_(ZeroDivisionError, "integer division or modulo by zero")
            return SInt(floordiv(a.t, b.t)) if isinstance(op, ast.FloorDiv) else SInt(pymod(a.t, b.t))
        if isinstance(op, ast.Pow):
            bc, ac = b.concrete(), a.concrete()
            if ac is not None and bc is not None and bc >= 0:
                return SInt(ac ** bc)
            if bc is not None and 0 <= bc <= 4:
                r = z3.IntVal(1)
                for _ in range(bc):
                    r = r * a.t
                return SInt(r)
            raise Unsupported("symbolic power")
        if isinstance(op, (ast.LShift, ast.RShift)):
            bc = b.concrete()
            if bc is None or bc < 0:
                raise Unsupported("symbolic shift amount")
            return SInt(a.t * (1 << bc)) if isinstance(op, ast.LShift) else SInt(floordiv(a.t, z3.IntVal(1 << bc)))
        if isinstance(op, (ast.BitAnd, ast.BitOr, ast.BitXor)):
            ac, bc = a.concrete(), b.concrete()
            if ac is not None and bc is not None:
                return SInt({ast.BitAnd: ac & bc, ast.BitOr: ac | bc, ast.BitXor: ac ^ bc}[type(op)])
            if isinstance(op, ast.BitAnd) and (ac is not None or bc is not None):
                x, m = (b, ac) if ac is not None else (a, bc)
                it.ex.note("assumed", "bitwise & operand is non-negative")
                return SInt(bit_and_const(x.t, m))
            if isinstance(op, ast.BitOr) and (ac is not None or bc is not None):
                x, m = (b, ac) if ac is not None else (a, bc)
                # x | m = x + m - (x & m)
                it.ex.note("assumed", "bitwise | operand is non-negative")
                return SInt(x.t + m - bit_and_const(x.t, m))
            it.ex.note("assumed", "bitwise op on two symbolic ints: operands in [0, 2^32) (encoded via 32-bit vectors)")
            x, y = z3.Int2BV(a.t, 32), z3.Int2BV(b.t, 32)
            r = {ast.BitAnd: x & y, ast.BitOr: x | y, ast.BitXor: x ^ y}[type(op)]
            return SInt(z3.BV2Int(r, False))
        if isinstance(op, ast.Div):
            raise Unsupported("true division")
    if isinstance(a, SFloat) or isinstance(b, SFloat):
        fa = a.t if isinstance(a, SFloat) else z3.ToReal(_zi(a))
        fb = b.t if isinstance(b, SFloat) else z3.ToReal(_zi(b))
        if isinstance(op, ast.Add):
            return SFloat(fa + fb)
        if isinstance(op, ast.Sub):
            return SFloat(fa - fb)
        if isinstance(op, ast.Mult):
            return SFloat(fa * fb)
        if isinstance(op, ast.Div) and z3.is_rational_value(z3.simplify(fb)) and z3.simplify(fb).numerator_as_long() != 0:
            return SFloat(fa / fb)  # division by a non-zero constant (floats are modelled as reals throughout)
        raise Unsupported("float op")
    if isinstance(op, ast.Add):
        if isinstance(a, SStr) and isinstance(b, SStr):
            return SStr(simp(z3.Concat(a.t, b.t)))
        if isinstance(a, SBytes) and isinstance(b, SBytes):
            return SBytes(simp(z3.Concat(a.t, b.t)))
        if isinstance(a, STuple) and isinstance(b, STuple):
            return STuple(a.items + b.items)
        if isinstance(a, SList) and isinstance(b, SList):
            return SList(a.items + b.items)
        if isinstance(a, SSeq) and isinstance(b, SSeq):
            return SSeq(z3.Concat(a.t, b.t), a.elem)
        if isinstance(a, SSeq) and isinstance(b, SList):
            return SSeq(z3.Concat(a.t, *[z3.Unit(_z(x)) for x in b.items]) if b.items else a.t, a.elem)
    if isinstance(op, ast.Mult):
        if isinstance(a, (SStr, SBytes, SList, STuple)) and isinstance(b, SInt) or isinstance(b, (SStr, SBytes, SList, STuple)) and isinstance(a, SInt):
            s, n = (a, b) if isinstance(b, SInt) else (b, a)
            nc = n.concrete()
            if nc is None:
                sc = s.concrete() if isinstance(s, (SStr, SBytes)) else None
                if sc is not None and len(sc) == 1:
                    # one-character string repeated a symbolic number of times: exact characterisation
                    ch = sc if isinstance(sc, str) else chr(sc[0])
                    r = it.fresh("bytes" if isinstance(s, SBytes) else "str", "repeat")
                    it.ex.assume(z3.And(z3.InRe(r.t, z3.Star(z3.Re(z3.StringVal(ch)))), z3.Length(r.t) == z3.If(n.t > 0, n.t, 0)))
                    return r
                raise Unsupported("symbolic repetition")
            if isinstance(s, (SStr, SBytes)):
                r = type(s)(z3.StringVal(""))
                for _ in range(max(nc, 0)):
                    r = r + s
                return r
            return type(s)(s.items * max(nc, 0))
    if isinstance(op, ast.Mod) and isinstance(a, (SStr, SBytes)):
        return percent_format(it, a, b)
    if isinstance(op, ast.BitOr) and isinstance(a, SDict) and isinstance(b, SDict):
        d = SDict(a.items)
        for k, v in b.items:
            dict_set(it, d, k, v)
        return d
    if isinstance(op, ast.BitOr) and isinstance(a, SConst) and isinstance(b, (SConst, SNoneT)):
        return SConst(("union-type", a, b))
    if isinstance(a, SObj):
        name = {ast.Add: "__add__", ast.Sub: "__sub__", ast.Mult: "__mul__", ast.BitOr: "__or__", ast.BitAnd: "__and__"}.get(type(op))
        if name:
            m = it.find_method(a.cls, name)
            if m is not None:
                return it.call_ifunc(m, [a, b], {})
    if isinstance(op, (ast.Sub, ast.BitAnd, ast.BitOr)) and isinstance(a, SSet) and isinstance(b, SSet):
        if isinstance(op, ast.Sub):
            out = SSet()
            for x in a.items:
                if not it.truthy(contains(b, x)):
                    out.items.append(x)
            return out
        if isinstance(op, ast.BitOr):
            out = SSet(a.items)
            for x in b.items:
                set_add(it, out, x)
            return out
        out = SSet()
        for x in a.items:
            if it.truthy(contains(b, x)):
                out.items.append(x)
        return out
    raise Unsupported(f"binary {type(op).__name__} on {a.kind}, {b.kind}")


def percent_format(it, fmt, arg):
    f = fmt.concrete()
    if f is None:
        raise Unsupported("symbolic format string")
    is_bytes = isinstance(fmt, SBytes)
    fs = f.decode("latin-1") if is_bytes else f
    args = list(arg.items) if isinstance(arg, STuple) else [arg]
    wrap = SBytes if is_bytes else SStr
    out = wrap(z3.StringVal(""))
    i = 0
    lit = ""
    while i < len(fs):
        c = fs[i]
        if c != "%":
            lit += c
            i += 1
            continue
        spec = fs[i + 1]
        i += 2
        if spec == "%":
            lit += "%"
            continue
        if lit:
            out = out + wrap(z3.StringVal(lit))
            lit = ""
        if not args:
            it.raise_(TypeError, "not enough arguments for format string")
        a = it.resolve(args.pop(0))
        if spec == "d" and isinstance(a, SInt):
            out = out + wrap(int_to_str(a.t))
        elif spec in "xX" and isinstance(a, SInt):
            out = out + wrap(uf("hex_lower" if spec == "x" else "hex_upper", _I, _S)(a.t))
        elif spec == "s" and isinstance(a, (SStr, SBytes)) and type(a) is type(wrap(z3.StringVal(""))):
            out = out + a
        elif spec == "s" and isinstance(a, SInt) and not is_bytes:
            out = out + wrap(int_to_str(a.t))
        else:
            out = out + wrap(format_value(it, a, ord("r") if spec == "r" else -1, None).t)
    if lit:
        out = out + wrap(z3.StringVal(lit))
    if args:
        it.raise_(TypeError, "not all arguments converted during string formatting")
    return wrap(simp(out.t))


def format_value(it, v, conversion, spec):
    v = it.resolve(v)
    if spec is not None:
        it.ex.note("opaque", "f-string with format spec -> opaque string")
        return it.fresh("str", "fmt")
    if conversion in (-1, ord("s")):
        if isinstance(v, SStr):
            return v
        if isinstance(v, SInt):
            return SStr(int_to_str(v.t))
        if isinstance(v, SBool):
            return SStr(z3.If(v.t, z3.StringVal("True"), z3.StringVal("False")))
        if isinstance(v, SNoneT):
            return SStr("None")
        if isinstance(v, SObj):
            m = it.find_method(v.cls, "__str__")
            if m is not None:
                return it.call_ifunc(m, [v], {})
            if issubclass(v.cls, BaseException):
                a = v.fields.get("args")
                if isinstance(a, STuple) and len(a.items) == 1:
                    return format_value(it, a.items[0], -1, None)
                if isinstance(a, STuple) and len(a.items) == 0:
                    return SStr("")
        if isinstance(v, SBytes):
            return SStr(uf("repr_bytes", _S, _S)(v.t))
    if conversion == ord("r") or conversion == -1:
        if isinstance(v, SBytes):
            return SStr(uf("repr_bytes", _S, _S)(v.t))
        if isinstance(v, SStr):
            return SStr(uf("repr_str", _S, _S)(v.t))
        if isinstance(v, SInt):
            return SStr(int_to_str(v.t))
    it.ex.note("opaque", f"str()/repr() of {v.kind} -> opaque string")
    return it.fresh("str", "fmt")


def compare(it, op, a, b):
    if isinstance(op, (ast.Is, ast.IsNot)):
        r = is_(a, b)
        return r if isinstance(op, ast.Is) else Not(r)
    if isinstance(op, (ast.Eq, ast.NotEq)):
        r = py_eq(it, a, b)
        return r if isinstance(op, ast.Eq) else Not(r)
    if isinstance(op, (ast.In, ast.NotIn)):
        r = py_contains(it, b, a)
        return r if isinstance(op, ast.In) else Not(r)
    if isinstance(a, (SInt, SBool, SEnum)) and isinstance(b, (SInt, SBool, SEnum)):
        x, y = _zi(a), _zi(b)
        return SBool({ast.Lt: x < y, ast.LtE: x <= y, ast.Gt: x > y, ast.GtE: x >= y}[type(op)])
    if isinstance(a, (SFloat, SInt)) and isinstance(b, (SFloat, SInt)):
        x = a.t if isinstance(a, SFloat) else z3.ToReal(a.t)
        y = b.t if isinstance(b, SFloat) else z3.ToReal(b.t)
        return SBool({ast.Lt: x < y, ast.LtE: x <= y, ast.Gt: x > y, ast.GtE: x >= y}[type(op)])
    if isinstance(a, (SStr, SBytes)) and type(a) is type(b):
        lt = {ast.Lt: a.t < b.t, ast.LtE: a.t <= b.t, ast.Gt: b.t < a.t, ast.GtE: b.t <= a.t}[type(op)]
        return SBool(lt)
    if isinstance(a, STuple) and isinstance(b, STuple) and len(a.items) == len(b.items) and a.items:
        # lexicographic
        strict = isinstance(op, (ast.Lt, ast.Gt))
        base = ast.Lt() if isinstance(op, (ast.Lt, ast.LtE)) else ast.Gt()
        res = SBool(not strict)
        for x, y in reversed(list(zip(a.items, b.items))):
            res = Or(compare(it, base, x, y), And(py_eq(it, x, y), res))
        return res
    raise Unsupported(f"comparison {type(op).__name__} on {a.kind}, {b.kind}")


def is_(a, b):
    if isinstance(a, SNoneT) or isinstance(b, SNoneT):
        return SBool(isinstance(a, SNoneT) and isinstance(b, SNoneT))
    if isinstance(a, SBool) and isinstance(b, SBool):
        return SBool(a.t == b.t)
    if isinstance(a, SEnum) and isinstance(b, SEnum):
        return Eq(a, b)
    if isinstance(a, SConst) and isinstance(b, SConst):
        return SBool(a.obj is b.obj)
    if isinstance(a, SBound) and isinstance(b, SBound):
        return SBool(a.self_ is b.self_ and a.func.node is b.func.node)
    if isinstance(a, (SBool, SInt)) != isinstance(b, (SBool, SInt)):
        return SBool(False)
    if isinstance(a, SInt) and isinstance(b, SInt):
        return SBool(a.t == b.t)
    return SBool(a is b)


def py_eq(it, a, b):
    if isinstance(a, SObj) or isinstance(b, SObj):
        o, other = (a, b) if isinstance(a, SObj) else (b, a)
        m = it.find_method(o.cls, "__eq__")
        if m is not None:
            r = it.resolve(it.call_ifunc(m, [o, other], {}))
            if isinstance(r, SConst) and r.obj is NotImplemented:
                return SBool(a is b)
            return truth(r) if not isinstance(r, SBool) else r
        import dataclasses

        if dataclasses.is_dataclass(o.cls) and o.cls.__dataclass_params__.eq and isinstance(other, SObj) and other.cls is o.cls:
            conj = [py_eq(it, o.fields[f.name], other.fields[f.name]) for f in dataclasses.fields(o.cls) if f.compare]
            return And(*conj) if conj else SBool(True)
        if isinstance(o, SObj) and issubclass(o.cls, tuple) and "_items" in o.fields:
            return py_eq(it, o.fields["_items"], other.fields["_items"] if isinstance(other, SObj) and "_items" in other.fields else other)
        return SBool(a is b)
    if isinstance(a, SBound) and isinstance(b, SBound):
        return SBool(a.self_ is b.self_ and a.func.node is b.func.node)
    if isinstance(a, (STuple, SList)) and type(a) is type(b):
        if len(a.items) != len(b.items):
            return SBool(False)
        return And(*[py_eq(it, x, y) for x, y in zip(a.items, b.items)]) if a.items else SBool(True)
    if isinstance(a, SSet) and isinstance(b, SSet):
        return And(*([py_contains(it, b, x) for x in a.items] + [py_contains(it, a, x) for x in b.items])) if (a.items or b.items) else SBool(True)
    return Eq(a, b)


def py_contains(it, hay, needle):
    hay = it.resolve(hay)
    needle = it.resolve(needle)
    if isinstance(hay, SObj):
        m = it.find_method(hay.cls, "__contains__")
        if m is not None:
            return truth(it.resolve(it.call_ifunc(m, [hay, needle], {})))
        raise Unsupported(f"`in` on {hay!r}")
    if isinstance(hay, SConst) and isinstance(hay.obj, (tuple, list, set, frozenset, dict, range)):
        hay = lift(list(hay.obj))
    if isinstance(hay, (STuple, SList, SSet)):
        if not hay.items:
            return SBool(False)
        return Or(*[py_eq(it, needle, x) for x in hay.items])
    if isinstance(hay, SDict):
        if not hay.items:
            return SBool(False)
        return Or(*[py_eq(it, needle, k) for k, _ in hay.items])
    if isinstance(hay, SNoneT):
        it.raise_(TypeError, "argument of type 'NoneType' is not iterable")
    return contains(hay, needle)


def flag_invert(it, v):
    if flag_like(v):
        allbits = 0
        for m in v.cls:
            allbits |= m.value
        return SEnum(v.cls, z3.IntVal(allbits) - bit_and_const(v.t, allbits))
    raise Unsupported("~ on enum")


# ---------------------------------------------------------------------------------------------
# subscripts


def eval_index(it, node):
    if isinstance(node, ast.Slice):
        return it.eval_Slice(node)
    return it.resolve(it.eval(node))


def getitem(it, o, node):
    idx = eval_index(it, node)
    return getitem_v(it, o, idx)


def pc_slice(it, o, lo, hi):
    """Opt-in (scenario option pc_slices=True): o[lo:hi] without the clamping ITEs when the path condition implies
    0 <= lo <= len(o) and lo <= hi; under these facts o[lo:hi] = substr(o, lo, hi - lo) (substr stops at the end)."""
    n = slen(o.t)
    a = z3.IntVal(0) if lo is None or isinstance(lo, SNoneT) else _zi(lo)
    b = n if hi is None or isinstance(hi, SNoneT) else _zi(hi)
    if it.ex.feasible(z3.Not(z3.And(a >= 0, a <= n, b >= a))):
        return None
    if getattr(it.ex, "inbounds_lengths", False) and not it.ex.feasible(b > n):
        # opt-in (scenario option inbounds_lengths=True): the path condition also implies hi <= len(o), so the slice has exactly
        # hi - lo characters: build it without clamping (flattened through nested slices / concatenations) and remember its
        # length for this path, so that len() of the slice is that integer term instead of a clamping ITE
        import pyvc.core as _core
        t = simp(_ssub_exact(it, o.t, simp(a), simp(b - a)))
        if z3.is_app(t) and t.decl().kind() == z3.Z3_OP_SEQ_EXTRACT:
            _core.INBOUNDS[t.get_id()] = (t, simp(b - a))
        return t
    return simp(ssub(o.t, simp(a), simp(b - a)))


def _ssub_exact(it, t, a, n):
    """substr(t, a, n) given 0 <= a and a + n <= len(t): no clamping is needed, and the slice can be pushed through nested
    substr terms (characters of substr(base, a0, _) are those of base shifted by a0) and through concatenations when the
    slice lies within one side (decided syntactically, else from the path condition)."""
    if z3.is_app(t) and t.decl().kind() == z3.Z3_OP_SEQ_EXTRACT:
        base, a0, n0 = t.children()
        return _ssub_exact(it, base, simp(a0 + a), n)
    if z3.is_app(t) and t.decl().kind() == z3.Z3_OP_SEQ_CONCAT:
        cs = t.children()
        head = cs[0]
        rest = cs[1] if len(cs) == 2 else z3.Concat(*cs[1:])
        lh = slen(head)
        in_rest, in_head = simp(a >= lh), simp(a + n <= lh)
        if z3.is_true(in_rest) or (not z3.is_false(in_rest) and not it.ex.feasible(z3.Not(in_rest))):
            return _ssub_exact(it, rest, simp(a - lh), n)
        if z3.is_true(in_head) or (not z3.is_false(in_head) and not it.ex.feasible(z3.Not(in_head))):
            return _ssub_exact(it, head, a, n)
    return z3.SubString(t, a, n)


def getitem_v(it, o, idx):
    if isinstance(idx, slice):
        lo = it.resolve(idx.start) if idx.start is not None else None
        hi = it.resolve(idx.stop) if idx.stop is not None else None
        if idx.step is not None:
            st = it.resolve(idx.step)
            if isinstance(o, (STuple, SList)) and isinstance(st, SInt) and st.concrete() is not None and lo is None and hi is None:
                return type(o)(o.items[:: st.concrete()])
            raise Unsupported("slice step")
        if isinstance(o, (SStr, SBytes)):
            if getattr(it.ex, "pc_slices", False):
                t = pc_slice(it, o, lo, hi)
                if t is not None:
                    return type(o)(t)
            return type(o)(simp(slice_term(o.t, lo, hi)))
        if isinstance(o, (STuple, SList)):
            lc = None if lo is None or isinstance(lo, SNoneT) else lo.concrete()
            hc = None if hi is None or isinstance(hi, SNoneT) else hi.concrete()
            if (lo is not None and not isinstance(lo, SNoneT) and lc is None) or (hi is not None and not isinstance(hi, SNoneT) and hc is None):
                # symbolic bound on a concrete-length tuple/list: fork over the clamped position 0..len (exact)
                def _fork_bound(b, bc, default):
                    if b is None or isinstance(b, SNoneT):
                        return default
                    if bc is not None:
                        return bc
                    if not isinstance(b, (SInt, SBool, SEnum)):
                        raise Unsupported("symbolic slice of list")
                    nn = len(o.items)
                    pos = norm_index(b, z3.IntVal(nn), z3.IntVal(default))
                    for k in range(nn):
                        if it.branch(SBool(pos == k)):
                            return k
                    return nn

                lc, hc = _fork_bound(lo, lc, 0), _fork_bound(hi, hc, len(o.items))
            return type(o)(o.items[lc:hc])
        if isinstance(o, SSeq):
            return SSeq(simp(slice_term(o.t, lo, hi)), o.elem)
        raise Unsupported(f"slice of {o.kind}")
    if isinstance(o, (SStr, SBytes, SSeq)):
        if not isinstance(idx, (SInt, SBool, SEnum)):
            it.raise_(TypeError, "indices must be integers")
        n = slen(o.t) if not isinstance(o, SSeq) else z3.Length(o.t)
        i = _zi(idx)
        ic = simp(i)
        if z3.is_int_value(ic):
            if ic.as_long() < 0:
                if not it.branch(SBool(n + i >= 0)):
                    it.raise_(IndexError, "index out of range")
                i = n + i
            elif not it.branch(SBool(i < n)):
                it.raise_(IndexError, "index out of range")
        else:
            if not it.branch(SBool(z3.And(i >= -n, i < n))):
                it.raise_(IndexError, "index out of range")
            i = z3.If(i < 0, n + i, i)
        if isinstance(o, SBytes):
            return SInt(simp(scode(o.t, simp(i))))
        if isinstance(o, SStr):
            return SStr(simp(sat(o.t, simp(i))))
        return seq_elem(it, o, i)
    if isinstance(o, (STuple, SList)):
        if not isinstance(idx, (SInt, SBool, SEnum)):
            it.raise_(TypeError, "indices must be integers")
        ic = idx.concrete()
        n = len(o.items)
        if ic is None:
            # fork over positions
            for k in range(n):
                if it.branch(SBool(z3.Or(_zi(idx) == k, _zi(idx) == k - n))):
                    return o.items[k]
            it.raise_(IndexError, "index out of range")
        if not -n <= ic < n:
            it.raise_(IndexError, "index out of range")
        return o.items[ic]
    if isinstance(o, SDict):
        return dict_get(it, o, idx)
    if isinstance(o, SObj):
        m = it.find_method(o.cls, "__getitem__")
        if m is not None:
            return it.call_ifunc(m, [o, idx if not isinstance(idx, slice) else SConst(idx)], {})
    if isinstance(o, SConst):
        # typing generics such as MessageInjected[tcp.TCPMessage], list[int]
        try:
            return lift(o.obj[idx.obj if isinstance(idx, SConst) else idx.concrete()])
        except Exception:
            pass
        return o
    raise Unsupported(f"subscript of {o!r}")


def seq_elem(it, o, i):
    """element i (in range) of a symbolic sequence, with the membership lemma instantiated at this term"""
    e = simp(o.t[i])
    it.ex.assume(z3.Contains(o.t, z3.Unit(e)))  # valid for 0 <= i < len (checked by the caller)
    it.ex.note("lemma", "seq-membership: 0<=i<len(s) => s[i] in s (instantiated per indexing term)")
    return o.wrap(e)


def setitem(it, o, node, v):
    idx = eval_index(it, node)
    if isinstance(o, SDict):
        return dict_set(it, o, idx, v)
    if isinstance(o, SList):
        if isinstance(idx, slice):
            lo = None if idx.start is None else it.resolve(idx.start).concrete()
            hi = None if idx.stop is None else it.resolve(idx.stop).concrete()
            if (idx.start is not None and lo is None) or (idx.stop is not None and hi is None):
                raise Unsupported("symbolic slice assignment")
            o.items[lo:hi] = it.iterate(v)
            return
        ic = idx.concrete()
        if ic is None:
            n = len(o.items)
            for k in range(n):
                if it.branch(SBool(z3.Or(_zi(idx) == k, _zi(idx) == k - n))):
                    o.items[k] = v
                    return
            it.raise_(IndexError, "list assignment index out of range")
        if not -len(o.items) <= ic < len(o.items):
            it.raise_(IndexError, "list assignment index out of range")
        o.items[ic] = v
        return
    if isinstance(o, SObj):
        m = it.find_method(o.cls, "__setitem__")
        if m is not None:
            return it.call_ifunc(m, [o, idx, v], {})
    raise Unsupported(f"item assignment on {o!r}")


def delitem(it, o, node):
    idx = eval_index(it, node)
    if isinstance(o, SDict):
        for i, (k, _) in enumerate(o.items):
            if it.truthy(py_eq(it, k, idx)):
                del o.items[i]
                return
        it.raise_(KeyError, idx)
    if isinstance(o, SList):
        if isinstance(idx, slice):
            lo = None if idx.start is None else it.resolve(idx.start).concrete()
            hi = None if idx.stop is None else it.resolve(idx.stop).concrete()
            del o.items[lo:hi]
            return
        ic = idx.concrete()
        if ic is None:
            raise Unsupported("symbolic del index")
        if not -len(o.items) <= ic < len(o.items):
            it.raise_(IndexError, "list index out of range")
        del o.items[ic]
        return
    if isinstance(o, SObj):
        m = it.find_method(o.cls, "__delitem__")
        if m is not None:
            return it.call_ifunc(m, [o, idx], {})
    raise Unsupported(f"del item on {o!r}")


def dict_find(it, d, key):
    """index of key in d (forking on symbolic equality), or None"""
    for i, (k, _) in enumerate(d.items):
        if it.truthy(py_eq(it, k, key)):
            return i
    return None


def dict_get(it, d, key):
    i = dict_find(it, d, key)
    if i is None:
        df = getattr(d, "default_factory", None)  # collections.defaultdict model (libx_http2.SDefaultDict): __missing__
        if df is not None:
            v = it.resolve(it.call_value(df, [], {}))
            d.items.append((key, v))
            return v
        it.raise_(KeyError, key)
    return d.items[i][1]


def dict_set(it, d, key, v):
    i = dict_find(it, d, key)
    if i is None:
        d.items.append((key, v))
    else:
        d.items[i] = (d.items[i][0], v)


def set_add(it, s, v):
    for x in s.items:
        if it.truthy(py_eq(it, x, v)):
            return
    s.items.append(v)


def unpack(it, v, n):
    if isinstance(v, (STuple, SList)):
        if len(v.items) != n:
            it.raise_(ValueError, "unpack arity")
        return v.items
    items = it.iterate(v)
    if len(items) != n:
        it.raise_(ValueError, "unpack arity")
    return items


# ---------------------------------------------------------------------------------------------
# context managers


def enter_context(it, cm):
    if isinstance(cm, SGen):
        # @contextmanager generator: run to its single yield lazily is not possible with eager generators;
        # we split: everything before the yield runs now, the rest at exit.
        raise Unsupported("contextmanager generator (use a summary)")
    if isinstance(cm, SObj):
        en = it.find_method(cm.cls, "__enter__") or it.find_method(cm.cls, "__aenter__")
        exm = it.find_method(cm.cls, "__exit__") or it.find_method(cm.cls, "__aexit__")
        if en is not None and exm is not None:
            val = it.call_ifunc(en, [cm], {})

            def exit_(exc):
                if exc is None:
                    it.call_ifunc(exm, [cm, NONE, NONE, NONE], {})
                    return False
                r = it.call_ifunc(exm, [cm, SConst(exc.cls), exc, NONE], {})
                return it.truthy(r)

            return val, exit_
    if isinstance(cm, SConst) and isinstance(cm.obj, tuple) and cm.obj and cm.obj[0] == "ctx":
        return cm.obj[1], cm.obj[2]
    raise Unsupported(f"with-statement on {cm!r}")


# ---------------------------------------------------------------------------------------------
# methods of builtin-typed values

def _conc_str(v):
    c = v.concrete() if hasattr(v, "concrete") else None
    return c


def call_method(it, obj, name, args, kwargs):
    args = [it.resolve(a) for a in args]
    t = type(obj)
    fn = METHODS.get((t, name))
    if fn is None:
        # all-concrete fallback: run the real method
        r = concrete_fallback(obj, name, args, kwargs)
        if r is not NotImplemented:
            return r
        if isinstance(obj, SNoneT) and not hasattr(None, name):
            it.raise_(AttributeError, f"'NoneType' object has no attribute '{name}'")
        raise Unsupported(f"method {obj.kind}.{name}")
    it.ex.note("lib", f"{obj.kind}.{name}")
    return fn(it, obj, *args, **kwargs)


def to_native(v):
    """Concrete native value of a symbolic value, or raise ValueError if it is not concrete."""
    if isinstance(v, (SInt, SBool, SStr, SBytes)):
        c = v.concrete()
        if c is None:
            raise ValueError
        return c
    if isinstance(v, SEnum):
        c = v.concrete()
        if c is None:
            raise ValueError
        return v.cls(c)
    if isinstance(v, SNoneT):
        return None
    if isinstance(v, STuple):
        return tuple(to_native(x) for x in v.items)
    if isinstance(v, SList):
        return [to_native(x) for x in v.items]
    if isinstance(v, SDict):
        return {to_native(k): to_native(x) for k, x in v.items}
    if isinstance(v, SConst) and not isinstance(v.obj, tuple):
        return v.obj
    raise ValueError


def concrete_fallback(obj, name, args, kwargs):
    try:
        o = to_native(obj)
        a = [to_native(x) for x in args]
        k = {kk: to_native(x) for kk, x in kwargs.items()}
    except ValueError:
        return NotImplemented
    if not isinstance(o, (int, str, bytes, tuple, bool)):
        return NotImplemented
    try:
        return lift(getattr(o, name)(*a, **k))
    except Exception as e:  # the real method raised: propagate as a Python exception of the program
        raise I.PyExc(exc_obj_from(e))


def exc_obj_from(e):
    return I.exc_obj(type(e), *[a for a in e.args if isinstance(a, (int, str, bytes))])


METHODS = {}


def method(t, name):
    def deco(fn):
        METHODS[(t, name)] = fn
        return fn

    return deco


# ---- bytes / str --------------------------------------------------------------------------------
for _T in (SBytes, SStr):

    @method(_T, "startswith")
    def _startswith(it, s, p, *a):
        if a:
            raise Unsupported("startswith with offsets")
        if isinstance(p, STuple):
            return Or(*[SBool(z3.PrefixOf(x.t, s.t)) for x in p.items])
        return SBool(z3.PrefixOf(p.t, s.t))

    @method(_T, "endswith")
    def _endswith(it, s, p, *a):
        if a:
            raise Unsupported("endswith with offsets")
        if isinstance(p, STuple):
            return Or(*[SBool(z3.SuffixOf(x.t, s.t)) for x in p.items])
        return SBool(z3.SuffixOf(p.t, s.t))

    @method(_T, "find")
    def _find(it, s, sub, *a):
        if a:
            start = _zi(a[0])
            return SInt(z3.IndexOf(s.t, sub.t, start))
        return SInt(z3.IndexOf(s.t, sub.t, 0))

    @method(_T, "index")
    def _index(it, s, sub, *a):
        r = z3.IndexOf(s.t, sub.t, _zi(a[0]) if a else 0)
        if not it.branch(SBool(r >= 0)):
            it.raise_(ValueError, "substring not found")
        return SInt(r)

    @method(_T, "rfind")
    def _rfind(it, s, sub, *a):
        if a:
            raise Unsupported("rfind with offsets")
        # last index: r = rfind(s, sub) is characterised by axioms on a fresh int
        r = it.fresh("int", "rfind")
        n, m = z3.Length(s.t), z3.Length(sub.t)
        it.ex.assume(z3.If(m == 0, r.t == n,  # s.rfind("") == len(s) (the last-occurrence clause below would be contradictory)
                           z3.If(z3.Contains(s.t, sub.t),
                                 z3.And(r.t >= 0, r.t + m <= n, z3.SubString(s.t, r.t, m) == sub.t,
                                        z3.Not(z3.Contains(z3.SubString(s.t, r.t + 1, n), sub.t)) if True else True),
                                 r.t == -1)))
        return r

    @method(_T, "partition")
    def _partition(it, s, sep):
        i = z3.IndexOf(s.t, sep.t, 0)
        T = type(s)
        found = z3.And(i >= 0)
        n = z3.Length(s.t)
        a = z3.If(found, z3.SubString(s.t, 0, i), s.t)
        b = z3.If(found, sep.t, z3.StringVal(""))
        c = z3.If(found, z3.SubString(s.t, i + z3.Length(sep.t), n), z3.StringVal(""))
        return STuple([T(simp(a)), T(simp(b)), T(simp(c))])

    @method(_T, "lower")
    def _lower(it, s):
        c = s.concrete()
        if c is not None:
            return lift(c.lower())
        f = uf("lower", _S, _S)
        r = f(s.t)
        it.ex.assume(z3.Length(r) == z3.Length(s.t))
        it.ex.assume(f(r) == r)
        return type(s)(r)

    @method(_T, "upper")
    def _upper(it, s):
        c = s.concrete()
        if c is not None:
            return lift(c.upper())
        f = uf("upper", _S, _S)
        r = f(s.t)
        it.ex.assume(z3.Length(r) == z3.Length(s.t))
        return type(s)(r)

    @method(_T, "isupper")
    def _isupper(it, s):
        c = s.concrete()
        if c is not None:
            return lift(c.isupper())
        return SBool(uf("isupper", _S, z3.BoolSort())(s.t))

    @method(_T, "isdigit")
    def _isdigit(it, s):
        c = s.concrete()
        if c is not None:
            return lift(c.isdigit())
        if isinstance(s, SBytes):
            return SBool(z3.And(z3.Length(s.t) > 0, z3.InRe(s.t, z3.Star(z3.Range("0", "9")))))
        return SBool(uf("str_isdigit", _S, z3.BoolSort())(s.t))

    @method(_T, "strip")
    def _strip(it, s, *a):
        c = s.concrete()
        if c is not None and all(x.concrete() is not None for x in a):
            return lift(c.strip(*[x.concrete() for x in a]))
        f = uf("strip" + ("_" + repr(a[0].concrete()) if a else ""), _S, _S)
        r = f(s.t)
        it.ex.assume(z3.Contains(s.t, r))
        return type(s)(r)

    @method(_T, "join")
    def _join(it, s, seq):
        items = it.iterate(seq)
        T = type(s)
        r = None
        for x in items:
            x = it.resolve(x)
            if not isinstance(x, T):
                it.raise_(TypeError, "join item type")
            r = x.t if r is None else z3.Concat(r, s.t, x.t)
        return T(simp(r) if r is not None else z3.StringVal(""))

    @method(_T, "replace")
    def _replace(it, s, a, b, *cnt):
        if cnt:
            raise Unsupported("replace with count")
        c = s.concrete()
        if c is not None and a.concrete() is not None and b.concrete() is not None:
            return lift(c.replace(a.concrete(), b.concrete()))
        # z3 str.replace replaces the first occurrence only; Python replaces all: use an uninterpreted function
        f = uf("replace_all", _S, _S, _S, _S)
        return type(s)(f(s.t, a.t, b.t))

    @method(_T, "removesuffix")
    def _removesuffix(it, s, suf):
        n, m = slen(s.t), slen(suf.t)
        return type(s)(simp(z3.If(z3.SuffixOf(suf.t, s.t), ssub(s.t, z3.IntVal(0), n - m), s.t)))

    @method(_T, "removeprefix")
    def _removeprefix(it, s, pre):
        n, m = slen(s.t), slen(pre.t)
        return type(s)(simp(z3.If(z3.PrefixOf(pre.t, s.t), ssub(s.t, m, n - m), s.t)))

    @method(_T, "__len__")
    def _len(it, s):
        return SInt(z3.Length(s.t))


@method(SBytes, "decode")
def _decode(it, s, *a, **k):
    enc = (a[0].concrete() if a else (k["encoding"].concrete() if "encoding" in k else "utf-8")).lower().replace("_", "-")
    enc = "utf-8" if enc == "utf8" else enc  # same codec, one uninterpreted symbol
    err = a[1].concrete() if len(a) > 1 else (k["errors"].concrete() if "errors" in k else "strict")
    c = s.concrete()
    if c is not None:
        try:
            return lift(c.decode(enc, err))
        except Exception as e:
            raise I.PyExc(exc_obj_from(e))
    if enc in ("latin-1", "latin1", "iso-8859-1"):
        return SStr(s.t)
    if enc == "ascii" and err == "strict":
        if not it.branch(SBool(z3.InRe(s.t, z3.Star(z3.Range(chr(0), chr(127)))))):
            it.raise_(UnicodeDecodeError, "ascii")
        return SStr(s.t)
    f = uf(f"decode_{enc}_{err}", _S, _S)
    r = f(s.t)
    if enc == "ascii" and err in ("replace", "ignore", "backslashreplace", "surrogateescape"):
        # identity on pure-ASCII input
        it.ex.assume(z3.Implies(z3.InRe(s.t, z3.Star(z3.Range(chr(0), chr(127)))), r == s.t))
        return SStr(r)
    if err == "strict":
        ok = uf(f"decodable_{enc}", _S, z3.BoolSort())(s.t)
        if enc in ("utf-8", "utf8"):
            it.ex.assume(z3.Implies(z3.InRe(s.t, z3.Star(z3.Range(chr(0), chr(127)))), ok))  # pure ASCII is valid UTF-8
        if not it.branch(SBool(ok)):
            it.raise_(UnicodeDecodeError, enc)
    if enc in ("utf-8", "utf8"):
        it.ex.assume(z3.Implies(z3.InRe(s.t, z3.Star(z3.Range(chr(0), chr(127)))), r == s.t))
    return SStr(r)


@method(SStr, "encode")
def _encode(it, s, *a, **k):
    enc = (a[0].concrete() if a else (k["encoding"].concrete() if "encoding" in k else "utf-8")).lower().replace("_", "-")
    enc = "utf-8" if enc == "utf8" else enc  # same codec, one uninterpreted symbol
    err = a[1].concrete() if len(a) > 1 else (k["errors"].concrete() if "errors" in k else "strict")
    c = s.concrete()
    if c is not None:
        try:
            return lift(c.encode(enc, err))
        except Exception as e:
            raise I.PyExc(exc_obj_from(e))
    f = uf(f"encode_{enc}_{err}", _S, _S)
    r = f(s.t)
    if err == "strict":
        ok = uf(f"encodable_{enc}", _S, z3.BoolSort())(s.t)
        if not it.branch(SBool(ok)):
            it.raise_(UnicodeEncodeError, enc)
    it.ex.assume(bytes_range(r))
    if enc in ("utf-8", "utf8", "ascii", "latin-1"):
        it.ex.assume(z3.Implies(z3.InRe(s.t, z3.Star(z3.Range(chr(0), chr(127)))), r == s.t))
    if enc == "utf-8" and err in ("strict", "surrogatepass"):
        # injective (surrogatepass: on all of str; strict: where it does not raise): stated through a left inverse,
        # so f(a) == f(b) gives a == b by congruence; the empty string is the only one with an empty encoding
        it.ex.note("assumed", f"str.encode('utf-8', '{err}') is injective and maps only '' to b''")
        it.ex.assume(uf(f"inv_encode_{enc}_{err}", _S, _S)(r) == s.t)
        it.ex.assume((z3.Length(r) == 0) == (z3.Length(s.t) == 0))
    return SBytes(r)


def bytes_range(t):
    return z3.InRe(t, z3.Star(z3.Range(chr(0), chr(255))))


def _o_inv_utf8_surrogatepass(b):
    try:
        return bytes(ord(c) for c in b).decode("utf-8", "surrogatepass")
    except (UnicodeDecodeError, ValueError):
        return ""


UF_ORACLES["encode_utf-8_surrogatepass"] = lambda s: s.encode("utf-8", "surrogatepass")
UF_ORACLES["inv_encode_utf-8_surrogatepass"] = _o_inv_utf8_surrogatepass


@method(SBytes, "hex")
def _hex(it, s):
    return SStr(uf("bytes_hex", _S, _S)(s.t))


@method(SBytes, "split")
@method(SStr, "split")
def _split(it, s, *a, **k):
    c = s.concrete()
    if c is not None and all(x.concrete() is not None for x in a):
        return lift(c.split(*[x.concrete() for x in a]))
    maxsplit = a[1].concrete() if len(a) > 1 else (k["maxsplit"].concrete() if "maxsplit" in k else -1)
    if not a or isinstance(a[0], SNoneT):
        raise Unsupported("whitespace split on symbolic string")
    sep = a[0]
    if maxsplit == 1:
        i = z3.IndexOf(s.t, sep.t, 0)
        T = type(s)
        if it.branch(SBool(i >= 0)):
            return SList([T(simp(z3.SubString(s.t, 0, i))), T(simp(z3.SubString(s.t, i + z3.Length(sep.t), z3.Length(s.t))))])
        return SList([s])
    raise Unsupported("split of symbolic string with unbounded number of parts")


# ---- list / tuple / dict / set --------------------------------------------------------------------

@method(SList, "append")
def _append(it, l, x):
    l.items.append(x)
    return NONE


@method(SList, "extend")
def _extend(it, l, xs):
    l.items.extend(it.iterate(xs))
    return NONE


@method(SList, "insert")
def _insert(it, l, i, x):
    ic = i.concrete()
    if ic is None:
        raise Unsupported("symbolic insert position")
    l.items.insert(ic, x)
    return NONE


@method(SList, "pop")
def _lpop(it, l, *a):
    if not l.items:
        it.raise_(IndexError, "pop from empty list")
    ic = a[0].concrete() if a else -1
    if ic is None:
        raise Unsupported("symbolic pop position")
    return l.items.pop(ic)


@method(SList, "clear")
def _lclear(it, l):
    l.items.clear()
    return NONE


@method(SList, "copy")
def _lcopy(it, l):
    return SList(l.items)


@method(SList, "remove")
def _lremove(it, l, x):
    for i, y in enumerate(l.items):
        if it.truthy(py_eq(it, y, x)):
            del l.items[i]
            return NONE
    it.raise_(ValueError, "list.remove(x): x not in list")


@method(SList, "index")
@method(STuple, "index")
def _lindex(it, l, x):
    for i, y in enumerate(l.items):
        if it.truthy(py_eq(it, y, x)):
            return SInt(i)
    it.raise_(ValueError, "not in list")


@method(SList, "count")
@method(STuple, "count")
def _lcount(it, l, x):
    r = z3.IntVal(0)
    for y in l.items:
        r = r + z3.If(_b(py_eq(it, y, x)), 1, 0)
    return SInt(simp(r))


@method(SList, "reverse")
def _lreverse(it, l):
    l.items.reverse()
    return NONE


@method(SDict, "get")
def _dget(it, d, k, default=NONE):
    i = dict_find(it, d, k)
    return default if i is None else d.items[i][1]


@method(SDict, "pop")
def _dpop(it, d, k, *default):
    i = dict_find(it, d, k)
    if i is None:
        if default:
            return default[0]
        it.raise_(KeyError, k)
    return d.items.pop(i)[1]


@method(SDict, "setdefault")
def _dsetdefault(it, d, k, default=NONE):
    i = dict_find(it, d, k)
    if i is None:
        d.items.append((k, default))
        return default
    return d.items[i][1]


@method(SDict, "items")
def _ditems(it, d):
    return SList([STuple([k, v]) for k, v in d.items])


@method(SDict, "keys")
def _dkeys(it, d):
    return SList([k for k, _ in d.items])


@method(SDict, "values")
def _dvalues(it, d):
    return SList([v for _, v in d.items])


@method(SDict, "clear")
def _dclear(it, d):
    d.items.clear()
    return NONE


@method(SDict, "copy")
def _dcopy(it, d):
    return SDict(d.items)


@method(SDict, "update")
def _dupdate(it, d, other=None, **kw):
    if other is not None:
        other = it.resolve(other)
        if isinstance(other, SDict):
            for k, v in other.items:
                dict_set(it, d, k, v)
        else:
            for kv in it.iterate(other):
                k, v = unpack(it, it.resolve(kv), 2)
                dict_set(it, d, k, v)
    for k, v in kw.items():
        dict_set(it, d, SStr(k), v)
    return NONE


@method(SSet, "add")
def _sadd(it, s, x):
    set_add(it, s, x)
    return NONE


@method(SSet, "discard")
def _sdiscard(it, s, x):
    for i, y in enumerate(s.items):
        if it.truthy(py_eq(it, y, x)):
            del s.items[i]
            break
    return NONE


@method(SSet, "remove")
def _sremove(it, s, x):
    for i, y in enumerate(s.items):
        if it.truthy(py_eq(it, y, x)):
            del s.items[i]
            return NONE
    it.raise_(KeyError, x)


@method(SSet, "clear")
def _sclear(it, s):
    s.items.clear()
    return NONE


@method(SSet, "copy")
def _scopy(it, s):
    return SSet(s.items)


@method(SInt, "to_bytes")
def _to_bytes(it, n, length=None, byteorder=None, **k):
    length = length if length is not None else k.get("length")
    byteorder = byteorder if byteorder is not None else k.get("byteorder")
    lc = length.concrete()
    bo = byteorder.concrete() if byteorder is not None else "big"
    if lc is None or bo != "big":
        raise Unsupported("to_bytes")
    if not it.branch(SBool(z3.And(n.t >= 0, n.t < 256 ** lc))):
        it.raise_(OverflowError, "int too big to convert")
    parts = [z3.StrFromCode((n.t / (256 ** (lc - 1 - i))) % 256) for i in range(lc)]
    return SBytes(simp(z3.Concat(*parts)) if len(parts) > 1 else parts[0])


@method(SInt, "bit_length")
def _bit_length(it, n):
    c = n.concrete()
    if c is not None:
        return SInt(c.bit_length())
    return SInt(uf("bit_length", _I, _I)(n.t))


@method(SGen := I.SGen, "__next__")
def _gen_next(it, g):
    raise Unsupported("explicit generator protocol (use a summary)")


def call_builtin_method(it, self_, k, name, args, kwargs):
    """Methods inherited from builtin bases (object.__setattr__, Exception.__init__, dict.__init__...)."""
    if name == "__setattr__" and len(args) == 2:
        n = it.resolve(args[0]).concrete()
        self_.fields[n] = args[1]
        return NONE
    if name == "__new__":
        c = it.resolve(args[0])
        return SObj(c.obj, {})
    if name == "__init__":
        if isinstance(self_, SObj) and issubclass(self_.cls, BaseException):
            self_.fields["args"] = STuple(list(args))
        return NONE
    if name == "__init_subclass__":
        return NONE
    if name == "__getattribute__" and len(args) == 1:
        return it.getattr_(self_, it.resolve(args[0]).concrete())
    if name == "__eq__":
        return SBool(self_ is args[0])
    if name == "__repr__" or name == "__str__":
        return it.fresh("str", "repr")
    raise Unsupported(f"builtin method {k.__name__}.{name}")


# ---------------------------------------------------------------------------------------------
# functions

FUNCTIONS = {}


def function(obj):
    def deco(fn):
        FUNCTIONS[id(obj)] = (obj, fn)
        return fn

    return deco


def lookup_function(o):
    e = FUNCTIONS.get(id(o))
    if e is not None and e[0] is o:
        return e[1]
    return None


@function(len)
def f_len(it, x):
    x = it.resolve(x)
    if isinstance(x, (SStr, SBytes)):
        return SInt(slen(x.t))
    if isinstance(x, SSeq):
        return SInt(z3.Length(x.t))
    if isinstance(x, (STuple, SList, SDict, SSet)):
        return SInt(len(x.items))
    if isinstance(x, SObj):
        m = it.find_method(x.cls, "__len__")
        if m is not None:
            return it.call_ifunc(m, [x], {})
        bm = builtin_method_model(x.cls, "__len__")
        if bm is not None:
            return bm(it, x)
    raise Unsupported(f"len of {x!r}")


@function(isinstance)
def f_isinstance(it, x, c):
    x = it.resolve(x)
    c = it.resolve(c)
    classes = []

    def add(cv):
        cv = it.resolve(cv)
        if isinstance(cv, STuple):
            for y in cv.items:
                add(y)
        elif isinstance(cv, SConst) and isinstance(cv.obj, tuple) and cv.obj and cv.obj[0] == "union-type":
            add(cv.obj[1])
            add(cv.obj[2])
        elif isinstance(cv, SConst) and isinstance(cv.obj, tuple):
            classes.extend(cv.obj)
        elif isinstance(cv, SConst):
            o = cv.obj
            import typing

            if typing.get_origin(o) is not None and not isinstance(o, type):
                if typing.get_origin(o) in (typing.Union, __import__("types").UnionType):
                    classes.extend(typing.get_args(o))
                else:
                    classes.append(typing.get_origin(o))
            else:
                classes.append(o)
        elif isinstance(cv, SNoneT):
            classes.append(type(None))
        else:
            raise Unsupported(f"isinstance against {cv!r}")

    add(c)
    return SBool(any(isa(x, k) for k in classes))


@function(issubclass)
def f_issubclass(it, a, b):
    a, b = it.resolve(a), it.resolve(b)
    bs = tuple(x.obj for x in b.items) if isinstance(b, STuple) else b.obj
    return SBool(issubclass(a.obj, bs))


@function(type)
def f_type(it, x, *a):
    if a:
        raise Unsupported("3-arg type()")
    return SConst(I.type_of(it.resolve(x)))


@function(id)
def f_id(it, x):
    return SInt(id(it.resolve(x)))


@function(callable)
def f_callable(it, x):
    x = it.resolve(x)
    if isinstance(x, SObj):
        return SBool(it.find_in_mro(x.cls, "__call__")[0] is not None)
    return SBool(isinstance(x, (SBound, I.IFunc)) or (isinstance(x, SConst) and (callable(x.obj) or (isinstance(x.obj, tuple) and x.obj[0] == "ifunc"))))


@function(hasattr)
def f_hasattr(it, o, name):
    o = it.resolve(o)
    n = it.resolve(name).concrete()
    if isinstance(o, SObj):
        if n in o.fields:
            return SBool(True)
        k, _ = it.find_in_mro(o.cls, n)
        return SBool(k is not None)
    if isinstance(o, SConst):
        return SBool(hasattr(o.obj, n))
    raise Unsupported("hasattr")


@function(getattr)
def f_getattr(it, o, name, *default):
    n = it.resolve(name).concrete()
    if n is None:
        raise Unsupported("getattr with symbolic name")
    o = it.resolve(o)
    if default:
        if isinstance(o, SObj) and n not in o.fields and it.find_in_mro(o.cls, n)[0] is None:
            return default[0]
        if isinstance(o, SConst) and not hasattr(o.obj, n):
            return default[0]
        if isinstance(o, SNoneT) and not hasattr(None, n):
            return default[0]
    return it.getattr_(o, n)


@function(setattr)
def f_setattr(it, o, name, v):
    n = it.resolve(name).concrete()
    if n is None:
        raise Unsupported("setattr with symbolic name")
    it.setattr_(o, n, v)
    return NONE


@function(int)
def f_int(it, x=None, base=None):
    if x is None:
        return SInt(0)
    x = it.resolve(x)
    if isinstance(x, SInt):
        return x
    if isinstance(x, SBool):
        return SInt(z3.If(x.t, 1, 0))
    if isinstance(x, SEnum):
        return SInt(x.t)
    if isinstance(x, (SStr, SBytes)):
        c = x.concrete()
        if c is not None:
            try:
                return SInt(int(c) if base is None else int(c, base.concrete()))
            except ValueError as e:
                raise I.PyExc(exc_obj_from(e))
        if base is not None:
            raise Unsupported("int(symbolic, base)")
        # Python accepts optional sign, underscores, surrounding whitespace; we split: plain digit strings are
        # converted exactly (str.to_int), anything else is handled by an uninterpreted acceptance predicate.
        digits = z3.InRe(x.t, z3.Plus(z3.Range("0", "9")))
        if it.branch(SBool(digits)):
            it.ex.assume(z3.StrToInt(x.t) >= 0)  # valid lemma: the value of a non-empty digit string is >= 0
            return SInt(z3.StrToInt(x.t))
        ok = uf("int_parsable_nondigit", _S, z3.BoolSort())(x.t)
        it.ex.assume(z3.Implies(ok, z3.Length(x.t) > 0))  # int("") / int(b"") always raises ValueError
        if it.branch(SBool(ok)):
            return SInt(uf("int_parse_nondigit", _S, _I)(x.t))
        it.raise_(ValueError, "invalid literal for int()")
    if isinstance(x, SNoneT) or isinstance(x, (SList, STuple, SDict)):
        it.raise_(TypeError, "int() argument")
    raise Unsupported(f"int({x!r})")


@function(bool)
def f_bool(it, x=None):
    if x is None:
        return SBool(False)
    return SBool(it.truthy(x))


@function(str)
def f_str(it, x=None, *a):
    if x is None:
        return SStr("")
    x = it.resolve(x)
    if a and isinstance(x, SBytes):
        return call_method(it, x, "decode", list(a), {})
    return format_value(it, x, -1, None)


@function(repr)
def f_repr(it, x):
    return format_value(it, it.resolve(x), ord("r"), None)


@function(bytes)
def f_bytes(it, x=None, *a):
    if x is None:
        return SBytes(b"")
    x = it.resolve(x)
    if isinstance(x, SBytes):
        return x
    if isinstance(x, (SList, STuple)):
        codes = [it.resolve(c) for c in x.items]
        for c in codes:
            if not isinstance(c, (SInt, SEnum)):
                it.raise_(TypeError, "bytes() item")
            if not it.branch(SBool(z3.And(c.t >= 0, c.t < 256))):
                it.raise_(ValueError, "bytes must be in range(0, 256)")
        if not codes:
            return SBytes(b"")
        return SBytes(simp(z3.Concat(*[z3.StrFromCode(c.t) for c in codes])) if len(codes) > 1 else z3.StrFromCode(codes[0].t))
    if isinstance(x, SInt):
        c = x.concrete()
        if c is None:
            raise Unsupported("bytes(symbolic n)")
        return SBytes(bytes(c))
    if isinstance(x, SStr) and a:
        return call_method(it, x, "encode", list(a), {})
    if isinstance(x, SObj):
        m = it.find_method(x.cls, "__bytes__")
        if m is not None:
            return it.call_ifunc(m, [x], {})
    raise Unsupported(f"bytes({x!r})")


@function(bytearray)
def f_bytearray(it, x=None):
    # bytearray values are treated as immutable bytes rebinding on += (the contracted code only uses += / slicing)
    it.ex.note("assumed", "bytearray modelled as bytes (only += and slicing are used; no aliasing of the buffer)")
    return f_bytes(it, x)


@function(memoryview)
def f_memoryview(it, x):
    return it.resolve(x)


@function(list)
def f_list(it, x=None):
    if x is None:
        return SList()
    x = it.resolve(x)
    if isinstance(x, SSeq):
        return x
    return SList(it.iterate(x))


@function(tuple)
def f_tuple(it, x=None):
    if x is None:
        return STuple([])
    return STuple(it.iterate(x))


@function(set)
@function(frozenset)
def f_set(it, x=None):
    s = SSet()
    if x is not None:
        for y in it.iterate(x):
            set_add(it, s, y)
    return s


@function(dict)
def f_dict(it, x=None, **kw):
    d = SDict()
    _dupdate(it, d, x, **kw)
    return d


@function(range)
def f_range(it, *a):
    vals = [it.resolve(x).concrete() for x in a]
    if any(v is None for v in vals):
        raise Unsupported("range with symbolic bounds (needs loop invariant)")
    return SList([SInt(i) for i in range(*vals)])


@function(enumerate)
def f_enumerate(it, xs, start=None):
    s = 0 if start is None else it.resolve(start).concrete()
    return SList([STuple([SInt(i + s), x]) for i, x in enumerate(it.iterate(xs))])


@function(zip)
def f_zip(it, *xs, **k):
    ls = [it.iterate(x) for x in xs]
    return SList([STuple(list(t)) for t in zip(*ls)])


@function(reversed)
def f_reversed(it, xs):
    return SList(list(reversed(it.iterate(xs))))


@function(sorted)
def f_sorted(it, xs, **k):
    items = it.iterate(xs)
    try:
        nat = [lib_native(x) for x in items]
    except ValueError:
        raise Unsupported("sorted on symbolic items")
    if "key" in k:
        raise Unsupported("sorted with key")
    return SList([lift(x) for x in sorted(nat, reverse=bool(k.get("reverse") and k["reverse"].concrete()))])


def lib_native(v):
    return to_native(v)


@function(min)
@function(max)
def f_minmax_dummy(it, *a, **k):
    raise Unsupported("min/max placeholder")


def _mk_minmax(is_min):
    def f(it, *a, **k):
        if "key" in k:
            raise Unsupported("min/max with key")
        xs = it.iterate(a[0]) if len(a) == 1 else list(a)
        xs = [it.resolve(x) for x in xs]
        if not xs:
            if "default" in k:
                return k["default"]
            it.raise_(ValueError, "empty sequence")
        r = xs[0]
        for x in xs[1:]:
            if not (isinstance(x, (SInt, SFloat)) and isinstance(r, (SInt, SFloat))):
                raise Unsupported("min/max on non-numbers")
            c = compare(it, ast.Lt() if is_min else ast.Gt(), x, r)
            r = If(c, x, r)
        return r

    f.__name__ = "min" if is_min else "max"
    return f


FUNCTIONS[id(min)] = (min, _mk_minmax(True))
FUNCTIONS[id(max)] = (max, _mk_minmax(False))


@function(sum)
def f_sum(it, xs, start=None):
    r = SInt(0) if start is None else it.resolve(start)
    for x in it.iterate(xs):
        r = binop(it, ast.Add(), r, it.resolve(x))
    return r


@function(all)
def f_all(it, xs):
    for x in it.iterate(xs):
        if not it.truthy(x):
            return SBool(False)
    return SBool(True)


@function(any)
def f_any(it, xs):
    for x in it.iterate(xs):
        if it.truthy(x):
            return SBool(True)
    return SBool(False)


@function(next)
def f_next(it, g, *default):
    g = it.resolve(g)
    if isinstance(g, SObj):
        m = it.find_method(g.cls, "__next__")
        if m is not None:
            try:
                return it.call_ifunc(m, [g], {})
            except I.PyExc as pe:
                if default and issubclass(pe.exc.cls, StopIteration):
                    return default[0]
                raise
    items = it.iterate(g)
    if items:
        return items[0]
    if default:
        return default[0]
    it.raise_(StopIteration)


@function(iter)
def f_iter(it, x):
    return SList(it.iterate(x))


@function(filter)
def f_filter(it, fn, xs):
    out = []
    for x in it.iterate(xs):
        if it.truthy(x if isinstance(it.resolve(fn), SNoneT) else it.call_value(fn, [x], {})):
            out.append(x)
    return SList(out)


@function(map)
def f_map(it, fn, *xs):
    ls = [it.iterate(x) for x in xs]
    return SList([it.call_value(fn, list(t), {}) for t in zip(*ls)])


@function(abs)
def f_abs(it, x):
    x = it.resolve(x)
    return SInt(z3.If(x.t >= 0, x.t, -x.t))


@function(ord)
def f_ord(it, x):
    x = it.resolve(x)
    return SInt(z3.StrToCode(x.t))


@function(chr)
def f_chr(it, x):
    x = it.resolve(x)
    return SStr(z3.StrFromCode(x.t))


@function(hash)
def f_hash(it, x):
    return it.fresh("int", "hash")


@function(print)
def f_print(it, *a, **k):
    return NONE


import dataclasses as _dc


@function(_dc.is_dataclass)
def f_is_dataclass(it, x):
    x = it.resolve(x)
    if isinstance(x, SObj):
        return SBool(_dc.is_dataclass(x.cls))
    if isinstance(x, SConst):
        return SBool(_dc.is_dataclass(x.obj))
    return SBool(False)


@function(_dc.fields)
def f_dc_fields(it, x):
    x = it.resolve(x)
    cls = x.cls if isinstance(x, SObj) else x.obj
    return SList([SConst(f) for f in _dc.fields(cls)])


import time as _time


@function(_time.time)
def f_time(it):
    t = it.fresh("float", "now")
    it.ex.assume(t.t > 0)
    return t


@function(_time.monotonic)
def f_monotonic(it):
    t = it.fresh("float", "mono")
    it.ex.assume(t.t > 0)
    return t


@function(struct.unpack)
def f_struct_unpack(it, fmt, data):
    return struct_unpack(it, it.resolve(fmt).concrete(), it.resolve(data), exact=True)


@function(struct.unpack_from)
def f_struct_unpack_from(it, fmt, data, offset=None):
    d = it.resolve(data)
    off = SInt(0) if offset is None else it.resolve(offset)
    return struct_unpack(it, it.resolve(fmt).concrete(), d, exact=False, offset=off)


@function(struct.pack)
def f_struct_pack(it, fmt, *vals):
    return struct_pack(it, it.resolve(fmt).concrete(), [it.resolve(v) for v in vals])


@function(struct.calcsize)
def f_struct_calcsize(it, fmt):
    return SInt(struct.calcsize(it.resolve(fmt).concrete()))


STRUCT_SIZES = {"B": 1, "H": 2, "I": 4, "L": 4, "Q": 8, "b": 1, "h": 2, "i": 4, "l": 4, "q": 8}


def struct_fields(fmt):
    if isinstance(fmt, bytes):
        fmt = fmt.decode()
    if not fmt or fmt[0] not in "!>":
        raise Unsupported(f"struct format {fmt!r} (only network byte order is modelled)")
    out = []
    num = ""
    for c in fmt[1:]:
        if c.isdigit():
            num += c
            continue
        n = int(num) if num else 1
        num = ""
        if c in "BHILQbhilq":
            out.extend([c] * n)
        elif c == "s":
            out.append(("s", n))
        elif c == "x":
            out.append(("x", n))
        else:
            raise Unsupported(f"struct code {c}")
    return out


def struct_size(fields):
    return sum(STRUCT_SIZES[f] if isinstance(f, str) else f[1] for f in fields)


def struct_unpack(it, fmt, data, exact, offset=None):
    if not isinstance(data, SBytes):
        raise Unsupported("struct.unpack on non-bytes")
    fields = struct_fields(fmt)
    size = struct_size(fields)
    n = slen(data.t)
    off = z3.IntVal(0) if offset is None else offset.t
    ok = (n == size) if exact else z3.And(off >= 0, n - off >= size)
    if not it.branch(SBool(ok)):
        it.raise_(struct.error, "unpack requires a buffer of the right size")
    out = []
    pos = off
    for f in fields:
        if isinstance(f, tuple):
            if f[0] == "s":
                out.append(SBytes(simp(ssub(data.t, simp(pos), z3.IntVal(f[1])))))
            pos = pos + f[1]
            continue
        w = STRUCT_SIZES[f]
        v = z3.IntVal(0)
        for k in range(w):
            v = v * 256 + scode(data.t, simp(pos + k))
        if f.islower():  # signed: two's complement
            v = z3.If(v >= 256 ** w // 2, v - 256 ** w, v)
        out.append(SInt(simp(v)))
        pos = pos + w
    return STuple(out)


def struct_pack(it, fmt, vals):
    fields = struct_fields(fmt)
    parts = []
    vals = list(vals)
    for f in fields:
        if isinstance(f, tuple):
            if f[0] == "x":
                parts.append(z3.StringVal("\x00" * f[1]))
                continue
            raise Unsupported("struct.pack s")
        w = STRUCT_SIZES[f]
        if not vals:
            it.raise_(struct.error, "pack expected more items")
        v = vals.pop(0)
        if isinstance(v, SBool):
            v = SInt(z3.If(v.t, 1, 0))
        if not isinstance(v, (SInt, SEnum)):
            it.raise_(struct.error, "required argument is not an integer")
        lo, hi = (-(256 ** w // 2), 256 ** w // 2) if f.islower() else (0, 256 ** w)
        if f.islower():
            v = SInt(z3.If(v.t < 0, v.t + 256 ** w, v.t)) if it.branch(SBool(z3.And(v.t >= lo, v.t < hi))) else it.raise_(struct.error, "argument out of range")
        if not it.branch(SBool(z3.And(v.t >= 0, v.t < 256 ** w))):
            it.raise_(struct.error, "argument out of range")
        for k in range(w):
            parts.append(z3.StrFromCode((v.t / (256 ** (w - 1 - k))) % 256))
    if vals:
        it.raise_(struct.error, "pack expected fewer items")
    return SBytes(simp(z3.Concat(*parts)) if len(parts) > 1 else parts[0])


class StructModel:
    pass


def _struct_cls(it, fmt):
    o = SObj(struct.Struct, {"format": fmt, "size": SInt(struct.calcsize(it.resolve(fmt).concrete()))})
    return o


CLASS_MODELS = {struct.Struct: _struct_cls}


@function(socket.inet_ntop)
def f_inet_ntop(it, family, data):
    family = it.resolve(family)
    data = it.resolve(data)
    fam = family.concrete()
    if fam == socket.AF_INET:
        if not it.branch(SBool(slen(data.t) == 4)):
            it.raise_(ValueError, "invalid length of packed IP address string")
        parts = []
        for k in range(4):
            parts.append(z3.IntToStr(scode(data.t, z3.IntVal(k))))
            if k < 3:
                parts.append(z3.StringVal("."))
        return SStr(simp(z3.Concat(*parts)))
    if fam == socket.AF_INET6:
        if not it.branch(SBool(slen(data.t) == 16)):
            it.raise_(ValueError, "invalid length of packed IP address string")
        return SStr(uf("inet_ntop6", _S, _S)(data.t))
    raise Unsupported("inet_ntop family")


@function(socket.inet_pton)
def f_inet_pton(it, family, s):
    fam = it.resolve(family).concrete()
    s = it.resolve(s)
    ok = uf(f"inet_pton_ok_{fam}", _S, z3.BoolSort())(s.t)
    if not it.branch(SBool(ok)):
        it.raise_(OSError, "illegal IP address string passed to inet_pton")
    r = uf(f"inet_pton_{fam}", _S, _S)(s.t)
    it.ex.assume(z3.Length(r) == (4 if fam == socket.AF_INET else 16))
    it.ex.assume(bytes_range(r))
    return SBytes(r)


def model_struct_method(it, obj, name, args, kwargs):
    fmt = obj.fields["format"].concrete()
    if name == "unpack":
        return struct_unpack(it, fmt, it.resolve(args[0]), exact=True)
    if name == "unpack_from":
        off = it.resolve(args[1]) if len(args) > 1 else it.resolve(kwargs.get("offset", SInt(0)))
        return struct_unpack(it, fmt, it.resolve(args[0]), exact=False, offset=off)
    if name == "pack":
        return struct_pack(it, fmt, [it.resolve(a) for a in args])
    raise Unsupported(f"Struct.{name}")


_orig_call_builtin_method = call_builtin_method


BUILTIN_METHODS = {}  # (class, method name) -> fn(it, self_, *args, **kwargs): models of methods of builtin/C classes


def builtin_method(cls, name):
    def deco(fn):
        BUILTIN_METHODS[(cls, name)] = fn
        return fn

    return deco


def builtin_method_model(cls, name):
    for k in cls.__mro__:
        fn = BUILTIN_METHODS.get((k, name))
        if fn is not None:
            return fn
    return None


def call_builtin_method(it, self_, k, name, args, kwargs):  # noqa: F811
    if isinstance(self_, SObj) and self_.cls is struct.Struct:
        return model_struct_method(it, self_, name, args, kwargs)
    if isinstance(self_, SObj):
        fn = builtin_method_model(self_.cls, name)
        if fn is not None:
            it.ex.note("lib", f"{k.__name__}.{name}")
            return fn(it, self_, *args, **kwargs)
    return _orig_call_builtin_method(it, self_, k, name, args, kwargs)


# ---------------------------------------------------------------------------------------------
# extension modules: pyvc/libx_*.py register further trusted library contracts with @function / @method / CLASS_MODELS
def _load_extensions():
    import glob
    import importlib
    import os

    here = os.path.dirname(os.path.abspath(__file__))
    for f in sorted(glob.glob(os.path.join(here, "libx_*.py"))):
        importlib.import_module("pyvc." + os.path.basename(f)[:-3])


_load_extensions()
