"""Trusted contracts used by the asyncio-handler properties (C09, C53)."""
from .lib import *  # noqa: F401,F403
from .lib import method


@method(SSet, "pop")
def _spop(it, s):
    """set.pop() removes and returns an *arbitrary* element: every choice is explored as its own path (exact for
    order-independent code, over-approximate w.r.t. CPython's actual choice)."""
    if not s.items:
        it.raise_(KeyError, "pop from an empty set")
    i = it.ex.choose(len(s.items), "set.pop") if len(s.items) > 1 else 0
    return s.items.pop(i)
