"""python -m pyvc.debug Cxx [scenario-substring] : run scenarios in-process and print every non-proved obligation."""
import sys
import traceback

from . import vc as V
from .runner import _load


def main():
    pid = sys.argv[1]
    only = sys.argv[2] if len(sys.argv) > 2 else ""
    mod = _load(pid)
    for sc in mod.SCENARIOS:
        if only not in sc.name:
            continue
        ex = V.Explorer(sc.fn, sc.name, sc.opts)
        try:
            ex.run()
        except Exception:
            traceback.print_exc()
        print(f"== {sc.name}: paths={ex.paths} truncated={ex.truncated_paths} obligations={len(ex.results)} solver={ex.solver_seconds:.2f}s")
        for u in ex.undecided_paths:
            print("   UNDECIDED-PATH", u)
        for o in ex.results:
            if o.status != "proved":
                print("  ", o.status, o.name, o.backend, "path", o.path, "model", o.model)
                if o.status == "failed" and o.model is not None:
                    print("      native:", V.run_native(sc.fn, o.model))
        for k, v in ex.notes_all.items():
            print("   note", k, sorted(v)[:8])


if __name__ == "__main__":
    main()
