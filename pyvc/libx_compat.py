"""Library contracts used by mitmproxy.io.compat / mitmproxy.io.har (C38, C41).

str.format — exact for templates that consist of literal text, `{{`/`}}` escapes and plain auto-numbered `{}` fields
(what `migrate_flow`'s error message uses).  Each argument is rendered like `str(arg)`: exact for str / int / bool /
None and for tuples of such values (CPython: "(" + ", ".join(repr(x)) + ")", trailing comma for 1-tuples; repr == str for
int/bool/None); any other argument becomes an opaque (fresh, unconstrained) string, which over-approximates.
Anything else in the template (positional/keyword names, conversions, format specs) is Unsupported.
"""
from __future__ import annotations

from .lib import *  # noqa: F401,F403
from .lib import format_value, method


def _str_of(it, v):
    v = it.resolve(v)
    if isinstance(v, STuple):
        items = [it.resolve(x) for x in v.items]
        if all(isinstance(x, (SInt, SBool, SNoneT)) for x in items):
            r = SStr("(")
            for i, x in enumerate(items):
                if i:
                    r = r + SStr(", ")
                r = r + format_value(it, x, -1, None)
            if len(items) == 1:
                r = r + SStr(",")
            return r + SStr(")")
    return format_value(it, v, -1, None)


@method(SStr, "format")
def _str_format(it, s, *args, **kwargs):
    tmpl = s.concrete()
    if tmpl is None or kwargs:
        raise Unsupported("str.format with symbolic template or keyword arguments")
    out = SStr("")
    lit = ""
    i = 0
    n = 0
    while i < len(tmpl):
        c = tmpl[i]
        if tmpl.startswith("{{", i) or tmpl.startswith("}}", i):
            lit += c
            i += 2
        elif tmpl.startswith("{}", i):
            if n >= len(args):
                it.raise_(IndexError, "Replacement index out of range for positional args tuple")
            out = out + SStr(lit) + _str_of(it, args[n])
            lit = ""
            n += 1
            i += 2
        elif c in "{}":
            raise Unsupported("str.format: only plain auto-numbered {} fields are modelled")
        else:
            lit += c
            i += 1
    return out + SStr(lit)


# uuid.uuid4(): only `str(uuid.uuid4())` is used by the code under contract.  Model: an object whose str() is a fresh,
# unconstrained string (nothing is assumed about its format or uniqueness; contracts may only rely on "some str").
import uuid as _uuid

from .lib import function


class UUIDModel:
    def __init__(self, text):
        self.text = text

    def __str__(self):
        return self.text


@function(_uuid.uuid4)
def f_uuid4(it):
    it.ex.note("assumed", "uuid.uuid4(): str() of the result is an arbitrary fresh string")
    return it.instantiate(UUIDModel, [it.fresh("str", "uuid4")], {})


# datetime.fromisoformat(s).timestamp(): the parsed instant is an uninterpreted real-valued function of the text
# (ISO-8601 parsing is library behaviour; T2 exercises the real parser).  Parse errors are not modelled (the HAR files
# under contract are produced by datetime.isoformat()).
import datetime as _dt

import z3 as _z3

from .lib import builtin_method, uf


class DateTimeModel:
    def __init__(self, ts):
        self.ts = ts

    def timestamp(self):
        return self.ts


@builtin_method(_dt.datetime, "fromisoformat")
def _dt_fromisoformat(it, cls, s):
    s = it.resolve(s)
    if not isinstance(s, SStr):
        raise Unsupported("datetime.fromisoformat(non-str)")
    it.ex.note("assumed", "datetime.fromisoformat(s).timestamp() is an uninterpreted function of s (no parse errors modelled)")
    return it.instantiate(DateTimeModel, [SFloat(uf("iso_timestamp", _z3.StringSort(), _z3.RealSort())(s.t))], {})


# base64.b64decode(s) (validate=False, no altchars): same uninterpreted decoder as binascii.a2b_base64 in libx_addons
# (axiom a2b_base64(b64encode(x)) == x; invalid input raises binascii.Error).
import base64 as _b64

from .lib import function as _function


@_function(_b64.b64decode)
def f_b64decode(it, s, altchars=None, validate=False):
    from . import libx_addons as _A

    if altchars is not None or (validate is not False and it.truthy(validate)):
        raise Unsupported("b64decode(altchars/validate)")
    return _A.f_a2b_base64(it, s)


# Native oracles for the uninterpreted codec functions used by props/C41.py's summaries of mitmproxy.net.encoding /
# infer_content_encoding (only used to obtain replayable models, never for proving).
from .lib import UF_ORACLES as _ORACLES


def _l1b(s):
    return s.encode("latin-1")


def _o_try(f, default):
    def g(*a):
        try:
            return f(*a)
        except Exception:  # noqa: BLE001
            return default

    return g


def _o_known(enc):
    from mitmproxy.net import encoding as E

    try:
        E.encode("x", enc) if enc not in ("gzip", "br", "deflate", "zstd", "identity") else E.encode(b"x", enc)
        return True
    except Exception:  # noqa: BLE001
        return False


def _o_infer(ct):
    from mitmproxy.net.http import headers as H

    return H.infer_content_encoding(ct)


def _o_text_encode(text, enc):
    from mitmproxy.net import encoding as E

    return E.encode(text, enc)


def _o_coding_encode(data, enc):
    from mitmproxy.net import encoding as E

    return E.encode(_l1b(data), enc)


def _o_coding_decode(data, enc):
    from mitmproxy.net import encoding as E

    return E.decode(_l1b(data), enc)


_ORACLES.setdefault("codec_known", _o_known)
_ORACLES.setdefault("infer_charset", _o_try(_o_infer, "latin-1"))
_ORACLES.setdefault("text_encode", _o_try(_o_text_encode, b""))
_ORACLES.setdefault("coding_encode", _o_try(_o_coding_encode, b""))
_ORACLES.setdefault("coding_decode", _o_try(_o_coding_decode, b""))
_ORACLES.setdefault("encode_utf-8_surrogateescape", _o_try(lambda s: s.encode("utf-8", "surrogateescape"), b""))
_ORACLES.setdefault("iso_timestamp", _o_try(lambda s: int(_dt.datetime.fromisoformat(s).timestamp()), 0))
