"""Trusted library contracts used by the content / replay / cookie properties (C28, C31, C32, C52, C54).

All models here are *opt-in* through scenario options, so that scenarios of other properties see the default models:

* `exact_search=True`  -- `re.Pattern.search(s)` for a compiled pattern inside the exact fragment of libx_http1
  (literals, classes, greedy repeats, groups, `$` at the end; `\\d` only for bytes patterns or with re.ASCII) is the SMT
  regular-language membership   s in  Sigma* . L(p) . (\\n)?   (pattern ends with `$`)  or  Sigma* . L(p) . Sigma*.
* `strip_facts=True`   -- `str.strip(chars)` / `bytes.strip(chars)` with a concrete, non-empty `chars`: the result stays
  an uninterpreted function of s, constrained by true facts (over-approximation): it neither starts nor ends with a
  character of `chars`, is s itself if s is already clean, one-character unfolding on either side; plus the fact that
  lower() commutes with strip(chars) when `chars` contains no cased character.
* `lower_identity=True` -- `s.lower()` returns s: the scenario's inputs are canonical lower-case strings (fixpoints of lower())
  and every string the code lowers is built from them by slicing / stripping / concatenation with lower-case literals
  (fixpoints of lower() are exactly the strings without lowerable characters, a set closed under these operations).
  The scenario must list this as an assumption.
* `rfind_uf=True`      -- `s.rfind(sub)` is the application of an uninterpreted function constrained by the same
  characterisation the default model states for a fresh integer (so that two runs on equal arguments agree by congruence).
"""
from __future__ import annotations

import re
import types as _types

import z3

from .lib import *  # noqa: F401,F403
from .lib import METHODS, FUNCTIONS, CLASS_MODELS, uf, _S, _I, method, function
from . import lib as _lib
from . import interp as I

_B = z3.BoolSort()


def _opt(it, name):
    return bool(getattr(it.ex, name, False))


# ---------------------------------------------------------------------------------------------------------------------
# re.Pattern.search (exact, opt-in)


def _search_language(p: re.Pattern):
    """(regex of L(p), anchored_at_end) for patterns in the exact fragment, else None"""
    try:
        import re._parser as P
        import re._constants as C
        from . import libx_http1 as H

        is_bytes = isinstance(p.pattern, bytes)
        flags = p.flags & ~re.UNICODE.value
        ascii_digits = is_bytes or bool(flags & re.ASCII.value)
        if flags & ~re.ASCII.value:
            return None
        data = list(P.parse(p.pattern, p.flags).data)

        def has_negation(seq):
            for op, arg in seq:
                if op is C.IN and any(o is C.NEGATE for o, _ in arg):
                    return True
                if op is C.MAX_REPEAT and has_negation(arg[2]):
                    return True
                if op is C.SUBPATTERN and has_negation(arg[3]):
                    return True
                if op is C.BRANCH and any(has_negation(a) for a in arg[1]):
                    return True
            return False

        if data and data[0] == (C.AT, C.AT_BEGINNING):
            return None  # search with ^ is match: not needed here
        end = False
        if data and data[-1] == (C.AT, C.AT_END):
            data, end = data[:-1], True
        if has_negation(data) and not is_bytes:
            return None
        # libx_http1's translation treats \d as [0-9] only for bytes patterns; with re.ASCII the same holds for str
        return H._seq_to_re(data, ascii_digits), end
    except Exception:
        return None


def _exact_search(p):
    lang = _search_language(p)
    if lang is None:
        return None
    R, end = lang
    full = z3.Full(z3.ReSort(_S))
    L = z3.Concat(full, R, z3.Option(z3.Re(z3.StringVal("\n")))) if end else z3.Concat(full, R, full)

    def model(it, s, *a, **k):
        s = it.resolve(s)
        if a or k:
            raise Unsupported("re search with pos/endpos")
        if not isinstance(s, (SStr, SBytes)):
            it.raise_(TypeError, "expected string or bytes-like object")
        if isinstance(s, SBytes) != isinstance(p.pattern, bytes):
            it.raise_(TypeError, "cannot use a string pattern on a bytes-like object")
        it.ex.note("lib", f"re search {p.pattern!r} (exact SMT regex)")
        if it.branch(SBool(z3.InRe(s.t, L))):
            return SObj(re.Match, {"re": SConst(p), "string": s})
        return NONE

    return model


def search_language_term(p, t):
    """s in Sigma* L(p) ... as a z3 term (for specifications that want the same predicate)"""
    R, end = _search_language(p)
    full = z3.Full(z3.ReSort(_S))
    return z3.InRe(t, z3.Concat(full, R, z3.Option(z3.Re(z3.StringVal("\n")))) if end else z3.Concat(full, R, full))


_prev_lookup_content = _lib.lookup_function


def _lookup_function_content(o):
    r = _prev_lookup_content(o)
    if r is None and isinstance(o, _types.BuiltinMethodType) and isinstance(getattr(o, "__self__", None), re.Pattern) and o.__name__ == "search":
        p = o.__self__
        exact = _exact_search(p)
        if exact is not None:
            def model(it, *a, **k):
                if not _opt(it, "exact_search"):
                    from . import libx_tools as T

                    return T.PATTERN_METHODS["search"](it, p, *a, **k)
                return exact(it, *a, **k)

            model.__name__ = f"re.search[{p.pattern!r}]"
            return model
    return r


_lib.lookup_function = _lookup_function_content


# ---------------------------------------------------------------------------------------------------------------------
# strip(chars) for a concrete char set: facts about the uninterpreted result (opt-in, over-approximate)

for _T in (SStr, SBytes):
    def _mk_strip(T):
        default = METHODS[(T, "strip")]

        def _strip_facts(it, s, *a):
            r = default(it, s, *a)
            if not _opt(it, "strip_facts") or s.concrete() is not None or len(a) != 1:
                return r
            chars = a[0].concrete()
            if not chars:
                return r
            if isinstance(chars, bytes):
                chars = chars.decode("latin-1")
            cls = z3.Union(*[z3.Re(z3.StringVal(c)) for c in chars]) if len(chars) > 1 else z3.Re(z3.StringVal(chars))
            full = z3.Full(z3.ReSort(_S))
            f = r.t.decl()

            def sw(t):
                return z3.InRe(t, z3.Concat(cls, full))

            def ew(t):
                return z3.InRe(t, z3.Concat(full, cls))

            def clean(t):
                return z3.And(z3.Not(sw(t)), z3.Not(ew(t)))

            n = z3.Length(s.t)
            head, tail = z3.SubString(s.t, 1, n - 1), z3.SubString(s.t, 0, n - 1)
            it.ex.assume(clean(r.t))                                   # the result neither starts nor ends with a stripped char
            it.ex.assume(z3.Implies(clean(s.t), r.t == s.t))           # nothing to strip
            it.ex.assume(z3.Implies(sw(s.t), r.t == f(head)))          # one unfolding on the left ...
            it.ex.assume(z3.Implies(clean(head), f(head) == head))
            it.ex.assume(z3.Implies(ew(s.t), r.t == f(tail)))          # ... and on the right
            it.ex.assume(z3.Implies(clean(tail), f(tail) == tail))
            it.ex.note("lib", f"{s.kind}.strip({chars!r}) (uninterpreted + facts: result clean, identity on clean input, one-character unfolding)")
            if all(c.lower() == c.upper() for c in chars):
                lo = uf("lower", _S, _S)
                it.ex.assume(lo(r.t) == f(lo(s.t)))
                it.ex.note("assumed", "lower() commutes with strip(chars) for uncased chars: s.strip(c).lower() == s.lower().strip(c)")
            return r

        METHODS[(T, "strip")] = _strip_facts

    _mk_strip(_T)


# ---------------------------------------------------------------------------------------------------------------------
# rfind as an uninterpreted function (opt-in)

for _T in (SStr, SBytes):
    def _mk_rfind(T):
        default = METHODS[(T, "rfind")]

        def _rfind(it, s, sub, *a):
            if not _opt(it, "rfind_uf") or a:
                return default(it, s, sub, *a)
            r = uf("rfind", _S, _S, _I)(s.t, sub.t)
            n, m = z3.Length(s.t), z3.Length(sub.t)
            it.ex.assume(z3.If(m == 0, r == n,  # s.rfind("") == len(s)
                               z3.If(z3.Contains(s.t, sub.t),
                                     z3.And(r >= 0, r + m <= n, z3.SubString(s.t, r, m) == sub.t,
                                            z3.Not(z3.Contains(z3.SubString(s.t, r + 1, n), sub.t))),
                                     r == -1)))
            it.ex.note("lib", f"{s.kind}.rfind (uninterpreted function + last-occurrence characterisation)")
            return SInt(r)

        METHODS[(T, "rfind")] = _rfind

    _mk_rfind(_T)


# ---------------------------------------------------------------------------------------------------------------------
# lower() on canonical inputs (opt-in)

for _T in (SStr, SBytes):
    def _mk_lower(T):
        default = METHODS[(T, "lower")]

        def _lower(it, s):
            if _opt(it, "lower_identity") and s.concrete() is None:
                it.ex.note("assumed", "inputs are canonical lower-case: lower() is the identity on every string derived from them")
                return s
            return default(it, s)

        METHODS[(T, "lower")] = _lower

    _mk_lower(_T)


# ---------------------------------------------------------------------------------------------------------------------
# UTF-8 facts (opt-in: scenario option utf8_facts=True)
#   * a pure-ASCII str is encodable (strict) in utf-8
#   * the result of bytes.decode("utf-8", "replace") contains no lone surrogate: it is encodable (strict) in utf-8

_ASCII_RE = z3.Star(z3.Range(chr(0), chr(127)))


def _mk_utf8_facts():
    default_enc = METHODS[(SStr, "encode")]
    default_dec = METHODS[(SBytes, "decode")]

    def _enc(it, s, *a, **k):
        if _opt(it, "utf8_facts") and s.concrete() is None:
            enc = (a[0].concrete() if a else (k["encoding"].concrete() if "encoding" in k else "utf-8")).lower().replace("_", "-")
            if enc in ("utf-8", "utf8"):
                ok = uf(f"encodable_{enc}", _S, _B)(s.t)
                it.ex.assume(z3.Implies(z3.InRe(s.t, _ASCII_RE), ok))
                it.ex.note("assumed", "a pure-ASCII str is encodable in UTF-8")
        return default_enc(it, s, *a, **k)

    def _dec(it, s, *a, **k):
        r = default_dec(it, s, *a, **k)
        if _opt(it, "utf8_facts") and s.concrete() is None and isinstance(r, SStr):
            enc = (a[0].concrete() if a else (k["encoding"].concrete() if "encoding" in k else "utf-8")).lower().replace("_", "-")
            err = a[1].concrete() if len(a) > 1 else (k["errors"].concrete() if "errors" in k else "strict")
            if enc in ("utf-8", "utf8") and err in ("strict", "replace", "ignore"):
                it.ex.assume(uf("encodable_utf-8", _S, _B)(r.t))
                it.ex.note("assumed", "bytes.decode('utf-8', strict/replace/ignore) yields a str without lone surrogates (encodable in UTF-8)")
        return r

    METHODS[(SStr, "encode")] = _enc
    METHODS[(SBytes, "decode")] = _dec


_mk_utf8_facts()


# ---------------------------------------------------------------------------------------------------------------------
# collections.OrderedDict: an insertion-ordered dict (the engine's SDict is insertion-ordered); move_to_end etc. not modelled

import collections as _collections


def _ordered_dict(it, *a, **k):
    return FUNCTIONS[id(dict)][1](it, *a, **k)


CLASS_MODELS[_collections.OrderedDict] = _ordered_dict


# ---------------------------------------------------------------------------------------------------------------------
# str/bytes.removeprefix / removesuffix (exact)

for _T in (SStr, SBytes):
    def _mk_remove(T):
        def _removeprefix(it, s, p):
            n, m = z3.Length(s.t), z3.Length(p.t)
            return T(simp(z3.If(z3.PrefixOf(p.t, s.t), z3.SubString(s.t, m, n - m), s.t)))

        def _removesuffix(it, s, p):
            n, m = z3.Length(s.t), z3.Length(p.t)
            return T(simp(z3.If(z3.And(m > 0, z3.SuffixOf(p.t, s.t)), z3.SubString(s.t, 0, n - m), s.t)))

        METHODS.setdefault((T, "removeprefix"), _removeprefix)
        METHODS.setdefault((T, "removesuffix"), _removesuffix)

    _mk_remove(_T)


# ---------------------------------------------------------------------------------------------------------------------
# int(str) for signed decimal text (opt-in: scenario option int_signed=True): "-" digits is converted exactly
# (the default model converts plain digit strings exactly and leaves everything else to an uninterpreted parser)

def _mk_int_signed():
    default_int = FUNCTIONS[id(int)][1]
    digit = z3.Range("0", "9")
    lenient = z3.Star(z3.Union(digit, *[z3.Re(z3.StringVal(c)) for c in " \t\n\r\x0b\x0c+_-"]))

    def facts(it, digits_term):
        n = z3.StrToInt(digits_term)
        it.ex.assume(n >= 0)
        it.ex.assume((n == 0) == z3.InRe(digits_term, z3.Plus(z3.Re(z3.StringVal("0")))))
        it.ex.note("lemma", "decimal value of a digit string is >= 0, and 0 exactly for strings of zeros")
        return n

    def f_int_signed(it, x=None, base=None):
        if x is not None and base is None and _opt(it, "int_signed"):
            xv = it.resolve(x)
            if isinstance(xv, (SStr, SBytes)) and xv.concrete() is None:
                if it.branch(SBool(z3.InRe(xv.t, z3.Plus(digit)))):
                    return SInt(facts(it, xv.t))
                neg = z3.InRe(xv.t, z3.Concat(z3.Re(z3.StringVal("-")), z3.Plus(digit)))
                if it.branch(SBool(neg)):
                    it.ex.note("lib", "int('-' digits) (exact)")
                    return SInt(-facts(it, z3.SubString(xv.t, 1, z3.Length(xv.t) - 1)))
                # what int() accepts beyond that, for ASCII text: sign, blanks, underscores around/between digits only
                ok = uf("int_parsable_nondigit", _S, _B)(xv.t)
                it.ex.assume(z3.Implies(z3.And(ok, z3.InRe(xv.t, _ASCII_RE)), z3.InRe(xv.t, lenient)))
                it.ex.note("assumed", "int(text) accepts an ASCII text only if it consists of digits, sign, underscores and blanks")
        return default_int(it, x, base)

    f_int_signed.__name__ = "f_int"
    FUNCTIONS[id(int)] = (int, f_int_signed)


_mk_int_signed()
