"""Library contracts for file-like objects and small stdlib helpers used by mitmproxy.io / addons.save (C36-C40).

`FileModel` is the trusted model of a binary file object (BinaryIO): a byte string `content`, a read position `pos`
and an effect trace `ops`.  It is written in the verified Python subset and is used *as the same text* in proof mode
(its methods are interpreted symbolically, like any bound method) and in native mode (scenarios replay on it, T2 uses
it as a fault-injecting file).  What is trusted is that real files behave like this model:

  read(n)  = content[pos:pos+n] (short only at EOF), advances pos by the length of the result; read()/read(-1) = rest
  peek(n)  = content[pos:pos+n] without advancing (a real BufferedReader may return more; callers only use startswith)
  write(b) = appends b at the end of the file (files are opened "wb"/"ab": position is always the end), buffered:
             the bytes become durable (part of `durable`) in order at the next flush()/close()
  flush()  = everything written so far is durable;  close() = flush + no further use.
"""
from __future__ import annotations

import collections
import typing

from .lib import *  # noqa: F401,F403
from .lib import CLASS_MODELS, function


class FileModel:
    def __init__(self, content=b"", pos=0):
        self.content = content
        self.pos = pos
        self.durable = content
        self.ops = []
        self.closed = False

    # -- reading
    def read(self, n=-1):
        if self.closed:
            raise ValueError("I/O operation on closed file.")
        if n is None or n < 0:
            r = self.content[self.pos:]
        else:
            r = self.content[self.pos:self.pos + n]
        self.pos = self.pos + len(r)
        return r

    def peek(self, n=0):
        return self.content[self.pos:self.pos + n]

    def tell(self):
        return self.pos

    def seek(self, p):
        self.pos = p
        return p

    # -- writing (append-only)
    def write(self, data):
        if self.closed:
            raise ValueError("I/O operation on closed file.")
        self.ops.append(("write", data))
        self.content = self.content + data
        return len(data)

    def flush(self):
        if self.closed:
            raise ValueError("I/O operation on closed file.")
        self.ops.append(("flush",))
        self.durable = self.content

    def close(self):
        if not self.closed:
            self.ops.append(("close",))
            self.durable = self.content
            self.closed = True


class DequeModel:
    """collections.deque as used by tnetstring.dumps: appendleft + iteration (left to right)."""

    def __init__(self):
        self.items = []

    def appendleft(self, x):
        self.items.insert(0, x)

    def append(self, x):
        self.items.append(x)

    def __iter__(self):
        return iter(self.items)

    def __len__(self):
        return len(self.items)


def _deque(it, *a, **k):
    if a or k:
        raise Unsupported("deque(iterable/maxlen)")
    it.ex.note("lib", "collections.deque (DequeModel: appendleft/append/iter)")
    return it.instantiate(DequeModel, [], {})


CLASS_MODELS[collections.deque] = _deque


@function(typing.cast)
def f_cast(it, typ, val):
    return val


import copy as _copy


def _deep(it, v):
    v = it.resolve(v)
    if isinstance(v, (SInt, SBool, SStr, SBytes, SNoneT, SFloat, SEnum)):
        return v
    if isinstance(v, STuple):
        return STuple([_deep(it, x) for x in v.items])
    if isinstance(v, SList):
        return SList([_deep(it, x) for x in v.items])
    if isinstance(v, SDict):
        return SDict([(_deep(it, k), _deep(it, x)) for k, x in v.items])
    if isinstance(v, SSet):
        return SSet([_deep(it, x) for x in v.items])
    raise Unsupported(f"copy.deepcopy of {v!r}")


@function(_copy.deepcopy)
def f_deepcopy(it, x, memo=None):
    """copy.deepcopy on plain data (None/bool/int/float/str/bytes/tuple/list/dict/set): fresh containers, equal contents"""
    return _deep(it, x)


@function(_copy.copy)
def f_copy(it, x):
    v = it.resolve(x)
    if isinstance(v, SList):
        return SList(v.items)
    if isinstance(v, SDict):
        return SDict(v.items)
    if isinstance(v, SSet):
        return SSet(v.items)
    if isinstance(v, (SInt, SBool, SStr, SBytes, SNoneT, SFloat, SEnum, STuple)):
        return v
    raise Unsupported(f"copy.copy of {v!r}")


class Component:
    """Opaque serialisable component (stand-in for connection.Client/Server, flow.Error, http.Request...): its whole
    state is one value `v`. Used by contracts that treat the sub-object part of a flow's state as opaque."""

    def __init__(self, v):
        self.v = v

    def get_state(self):
        return {"v": self.v}

    def set_state(self, state):
        self.v = state.pop("v")

    @classmethod
    def from_state(cls, state):
        return cls(state["v"])

    def copy(self):
        return Component(self.v)


# memoryview is modelled as the bytes it views (lib.f_memoryview): its methods used by tnetstring
from .lib import method  # noqa: E402


@method(SBytes, "tobytes")
def _mv_tobytes(it, s):
    return s


@function(float)
def f_float(it, x=None):
    """float(): exact on ints/floats; for bytes/str input the accepted syntax and the value are library behaviour
    (uninterpreted): either a float value or ValueError"""
    if x is None:
        return SFloat(0.0)
    x = it.resolve(x)
    if isinstance(x, SFloat):
        return x
    if isinstance(x, (SInt, SBool)):
        return SFloat(z3.ToReal(_zi(x)))
    if isinstance(x, (SStr, SBytes)):
        c = x.concrete()
        if c is not None:
            try:
                return lift(float(c))
            except ValueError as e:
                raise I.PyExc(exc_obj_from(e))
        ok = uf("float_parsable", z3.StringSort(), z3.BoolSort())(x.t)
        if it.branch(SBool(ok)):
            return SFloat(uf("float_parse", z3.StringSort(), z3.RealSort())(x.t))
        it.raise_(ValueError, "could not convert string to float")
    it.raise_(TypeError, "float() argument must be a string or a real number")


@function(vars)
def f_vars(it, o):
    """vars(obj) for an instance: its attribute dict (a fresh dict holding the same values; callers here only read/copy it)"""
    o = it.resolve(o)
    if isinstance(o, SObj):
        return SDict([(SStr(k), v) for k, v in o.fields.items()])
    raise Unsupported(f"vars({o!r})")
