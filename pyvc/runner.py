"""./check Cxx --tier quick|thorough : runs T1 (proof) scenarios and T2 (bounded) checks of one property,
replays counter-models on the real code, matches known findings, writes evidence, prints verdict lines."""
from __future__ import annotations

import argparse
import hashlib
import importlib
import json
import multiprocessing as mp
import os
import sys
import time
import traceback

EVIDENCE_DIR = None
ROOT = os.path.dirname(os.path.dirname(os.path.abspath(__file__)))
EXTRACTION_DROPS = [
    "type annotations, docstrings, comments (not executed)",
    "decorators interpreted from an allow-list: staticmethod/classmethod/property/cached_property/lru_cache (pure, cache transparency assumed)/expect (taken as isinstance precondition)/dataclass/command; any other decorator => unsupported",
    "logging calls are executed as calls to opaque library functions without modelled state",
    "f-string fragments whose value is not int/str/bytes are opaque fresh strings (over-approximation)",
    "assert statements are assumed (author invariants) unless the scenario sets asserts_are_obligations",
]
ENCODING_ASSUMPTIONS = [
    "int is mathematical (Python ints are unbounded); // and % use floor semantics; &,|,<<,>> only with constant mask/shift on non-negative operands",
    "bytes/bytearray are strings over code points 0..255; str is a z3 Unicode string (solver alphabet stops at U+2FFFF)",
    "heap objects have concrete identity: aliasing is as set up by the scenario's pre-state",
    "partial correctness: termination is not proved; loops without invariant are unrolled to a stated bound and labelled bounded",
    "generators run eagerly when consumed (yield from / list() / for); explicit send()/next() protocols need summaries",
]


def _load(pid):
    sys.path.insert(0, ROOT)
    return importlib.import_module(f"props.{pid}")


def _run_scenario(args):
    pid, sname = args
    os.environ.setdefault("PYTHONHASHSEED", "0")
    t0 = time.time()
    try:
        from pyvc import vc as V, interp as I

        mod = _load(pid)
        sc = [s for s in mod.SCENARIOS if s.name == sname][0]
        I.SRC.used.clear()
        ex = V.Explorer(sc.fn, sc.name, sc.opts)
        ex.run()
        obs = [
            dict(name=o.name, status=o.status, backend=o.backend, seconds=round(o.seconds, 4), model=o.model, detail=o.detail)
            for o in ex.results
        ]
        return dict(
            scenario=sname, obligations=obs, paths=ex.paths, truncated=ex.truncated_paths, undecided=ex.undecided_paths,
            notes={k: sorted(v) for k, v in ex.notes_all.items()}, functions=dict(I.SRC.used), solver_s=round(ex.solver_seconds, 3),
            wall_s=round(time.time() - t0, 3), crash=None, declared=sc.functions, conf=ex.conf_samples,
        )
    except BaseException:
        return dict(scenario=sname, obligations=[], paths=0, truncated=0, undecided=[], notes={}, functions={}, solver_s=0, wall_s=round(time.time() - t0, 3), crash=traceback.format_exc(), declared=[])


def _replay_native(args):
    pid, sname, model = args
    try:
        from pyvc import vc as V

        mod = _load(pid)
        sc = [s for s in mod.SCENARIOS if s.name == sname][0]
        failed, checked, note = V.run_native(sc.fn, model)
        return dict(failed=failed, checked=checked, note=note, crash=None)
    except BaseException:
        return dict(failed=[], checked=[], note="", crash=traceback.format_exc())


def _run_bounded(args):
    pid, tier, seed = args
    try:
        mod = _load(pid)
        if not hasattr(mod, "bounded"):
            return None
        b = mod.bounded(tier, seed)
        return dict(evaluations=b.evaluations, distinct=len(b.distinct), failures=b.failures, samples=b.samples, rule=b.rule, bound=b.bound, exhaustive=b.exhaustive, crash=None)
    except BaseException:
        return dict(evaluations=0, distinct=0, failures=[], samples=[], rule="", bound="", exhaustive=False, crash=traceback.format_exc())


def load_known():
    import glob

    out = {"findings": [], "fixed": []}
    for p in [os.path.join(ROOT, "known_findings.json")] + sorted(glob.glob(os.path.join(ROOT, "known_findings.d", "*.json"))):
        if os.path.exists(p):
            d = json.load(open(p))
            out["findings"].extend(d.get("findings", []))
            out["fixed"].extend(d.get("fixed", []))
    return out


def main(argv=None):
    ap = argparse.ArgumentParser()
    ap.add_argument("pid")
    ap.add_argument("--tier", default=os.environ.get("VERIF_TIER", "quick"))
    ap.add_argument("--replay")
    ap.add_argument("--only")
    ap.add_argument("--no-bounded", action="store_true")
    ap.add_argument("--update-baseline", action="store_true")
    ap.add_argument("-v", action="store_true")
    a = ap.parse_args(argv)
    seed = int(os.environ.get("VERIF_SEED", "0") or 0)
    pid = a.pid
    t0 = time.time()
    # evidence/ describes runs against /repo itself; runs against another tree (PYVC_REPO=<scratch worktree>: mutants,
    # seeded changes) write their record under .scratch/ so that they never overwrite it
    global EVIDENCE_DIR
    full_run = os.path.realpath(os.environ.get("PYVC_REPO", "/repo")) == "/repo" and not a.only and not a.no_bounded and not os.environ.get("PYVC_SCENARIO_BUDGET")
    EVIDENCE_DIR = os.path.join(ROOT, "evidence") if full_run else os.path.join(ROOT, ".scratch", "evidence")  # partial runs (--only, --no-bounded, reduced budget) likewise
    os.makedirs(EVIDENCE_DIR, exist_ok=True)
    os.makedirs(os.path.join(ROOT, "replays"), exist_ok=True)
    os.environ["PYVC_TIER"] = a.tier
    mod = _load(pid)
    if a.replay:
        return do_replay(pid, mod, a.replay)
    scen = [s for s in getattr(mod, "SCENARIOS", []) if not a.only or a.only in s.name]
    known = load_known()
    kf = [f for f in known.get("findings", []) if f["property"] == pid]
    ctx = mp.get_context("spawn")
    nproc = min(int(os.environ.get("PYVC_NPROC", "16")), max(1, len(scen) + 1))
    lines = []
    violations = []
    with ctx.Pool(nproc) as pool:
        bres_async = None if a.no_bounded else pool.apply_async(_run_bounded, ((pid, a.tier, seed),))
        sres = pool.map(_run_scenario, [(pid, s.name) for s in scen], chunksize=1)
        # ---- T1 verdicts
        total = discharged = 0
        undecided = []
        by_backend = {}
        solver_s = 0.0
        functions = {}
        notes = {}
        ob_names = {}
        failed_items = []
        crashes = []
        for r in sres:
            if r["crash"]:
                crashes.append((r["scenario"], r["crash"]))
                undecided.append(f"{r['scenario']}: checker crash")
                continue
            solver_s += r["solver_s"]
            functions.update(r["functions"])
            for k, v in r["notes"].items():
                notes.setdefault(k, set()).update(v)
            for u in r["undecided"]:
                undecided.append(f"{r['scenario']}: {u}")
            if not r["obligations"] and not r["undecided"]:
                undecided.append(f"{r['scenario']}: zero obligations generated (vacuous)")
            # group per obligation name: an obligation is discharged iff it is proved on every path
            per = {}
            for o in r["obligations"]:
                per.setdefault(o["name"], []).append(o)
            for name, os_ in per.items():
                full = f"{pid}/{r['scenario']}/{name}"
                total += 1
                st = "proved"
                for o in os_:
                    if o["status"] == "failed":
                        st = "failed"
                        break
                    if o["status"] == "undecided":
                        st = "undecided"
                ob_names[full] = st
                if st == "proved":
                    discharged += 1
                    for o in os_:
                        by_backend[o["backend"]] = by_backend.get(o["backend"], 0) + 1
                elif st == "undecided":
                    undecided.append(f"{full}: solver unknown")
                else:
                    # prefer a counter-model that agrees with the real library (vc.Explorer.realistic_model), else the first
                    bad = sorted([o for o in os_ if o["status"] == "failed"], key=lambda o: 0 if (o.get("model") or {}).get("$realistic") else (1 if o.get("model") is not None else 2))[0]
                    failed_items.append((r["scenario"], name, full, bad))
        # ---- replay counter-models on the real code
        confirmed = []
        for sname, name, full, bad in failed_items:
            model = bad["model"]
            rep = pool.apply(_replay_native, ((pid, sname, model),)) if model is not None else dict(failed=[], checked=[], note="no model", crash=None)
            ok = name in rep["failed"]
            confirmed.append((sname, name, full, bad, rep, ok))
        # ---- CPython conformance of the symbolic executor on sampled paths
        conf_total = conf_bad = 0
        for r in sres:
            for cs in r.get("conf", []) or []:
                rep = pool.apply(_replay_native, ((pid, r["scenario"], cs["model"]),))
                conf_total += 1
                keep = lambda n: "/inv." not in n and not ("[KF-" in n and "[outside" not in n)
                rep["checked"] = [n for n in rep["checked"] if keep(n)]
                rep["failed"] = [n for n in rep["failed"] if keep(n)]
                cs["names"] = [n for n in cs["names"] if keep(n)]
                # an obligation proved symbolically on this path must not fail natively on an input of this path
                if rep["crash"] or rep["checked"] != cs["names"] or (set(rep["failed"]) - set(cs["failed_sym"])):
                    conf_bad += 1
                    undecided.append(f"{r['scenario']}: ENGINE-MISMATCH symbolic path vs CPython on {json.dumps(cs['model'], default=str)[:300]}: sym reached {cs['names'][:6]}.. failed {cs['failed_sym']}; native reached {rep['checked'][:6]}.. failed {rep['failed']} {(rep['crash'] or '')[-300:]}")
        # ---- known findings with a T1 witness: replay the committed witness on the real code
        for e in kf:
            if e.get("kind", "t1") == "t1" and e.get("witness") is not None:
                rep = pool.apply(_replay_native, ((pid, e["scenario"], e["witness"]),))
                if e["obligation"] in rep["failed"]:
                    e["_seen"] = True
                    lines.append(f"KNOWN-FINDING: property={pid} {e['what']}")
                else:
                    e["_stale_note"] = (rep.get("crash") or rep.get("note") or "")[-300:]
        bres = bres_async.get() if bres_async is not None else None

    # ---- classify T1 failures
    baseline = load_baseline(pid)
    for sname, name, full, bad, rep, ok in confirmed:
        entry = match_known(kf, "t1", full, bad.get("model"))
        replay_path = os.path.join(ROOT, "replays", f"{pid}-{_safe(sname)}-{_safe(name)}.json")
        payload = dict(property=pid, scenario=sname, obligation=full, model=bad.get("model"), backend=bad["backend"], native_replay=rep, confirmed_on_real_code=ok)
        if entry is not None and ok:
            lines.append(f"KNOWN-FINDING: property={pid} {entry['what']}")
            entry["_seen"] = True
            continue
        if ok:
            json.dump(payload, open(replay_path, "w"), indent=1, default=str)
            violations.append(f"VIOLATION property={pid} replay={replay_path}")
            lines.append(f"  failing obligation {full}; counter-model replayed on the real code: contract violated")
        else:
            # the counter-model did not reproduce natively
            in_base = full in baseline.get("discharged", [])
            changed = functions_changed(baseline, functions)
            if in_base and changed:
                payload["solver_output"] = "sat (model above); native replay did not reproduce: " + str(rep.get("note")) + (" crash: " + rep["crash"][-400:] if rep.get("crash") else "")
                json.dump(payload, open(replay_path, "w"), indent=1, default=str)
                violations.append(f"VIOLATION property={pid} replay={replay_path} no-failing-input-found")
                lines.append(f"  obligation {full} was discharged on the pinned tree and now has a solver model on changed source ({', '.join(changed)})")
            else:
                undecided.append(f"{full}: solver model does not replay on the real code ({rep.get('note')}{'; replay crash' if rep.get('crash') else ''})")
    # ---- T2
    t2 = None
    if bres is not None:
        if bres["crash"]:
            crashes.append(("bounded", bres["crash"]))
        t2 = bres
        seen = set()
        for f in bres["failures"]:
            entry = match_known(kf, "t2", f["check"], f)
            if entry is not None:
                if id(entry) not in seen:
                    lines.append(f"KNOWN-FINDING: property={pid} {entry['what']}")
                    seen.add(id(entry))
                entry["_seen"] = True
                continue
            replay_path = os.path.join(ROOT, "replays", f"{pid}-bounded-{_safe(f['check'])}.json")
            if not os.path.exists(replay_path) or True:
                json.dump(dict(property=pid, bounded_check=f["check"], input=f["input"], detail=f["detail"]), open(replay_path, "w"), indent=1, default=str)
            v = f"VIOLATION property={pid} replay={replay_path}"
            if v not in violations:
                violations.append(v)
                lines.append(f"  bounded check {f['check']} failed on the real code: input={str(f['input'])[:300]} {f['detail'][:300]}")
    for e in kf:
        if not e.get("_seen"):
            lines.append(f"STALE-FINDING: property={pid} {e['id']} did not reproduce in this run ({e['what']})")
    # ---- generic lemmas the property's argument relies on, machine-checked in Lean on every run
    lemmas_checked = []
    for lf, what in getattr(mod, "LEAN_LEMMAS", []):
        import shutil
        import subprocess

        path = os.path.join(ROOT, "lean", lf)
        if shutil.which("lean") is None:
            undecided.append(f"lemma {lf}: lean not available")
            continue
        try:
            pr = subprocess.run(["lean", path], capture_output=True, text=True, timeout=300)
            txt = pr.stdout + pr.stderr
            if pr.returncode == 0 and "error" not in txt and "sorry" not in txt:
                lemmas_checked.append(f"{what}: lean/{lf} accepted by Lean 4 ({txt.strip().splitlines()[-1] if txt.strip() else 'no axioms output'})")
            else:
                undecided.append(f"lemma {lf}: Lean did not accept it: {txt[-300:]}")
        except Exception as e:
            undecided.append(f"lemma {lf}: {e}")
    # ---- evidence
    claim = getattr(mod, "CLAIM", "other")
    proved_all = total > 0 and discharged == total and not undecided
    level = claim if (claim != "proof" or proved_all) else "other"
    wall = time.time() - t0
    cov = dict(
        obligations=total, discharged=discharged,
        checker_cmd=f"./check {pid} --tier {a.tier}",
        trusted_base=sorted(notes.get("lib", set())) + sorted("summary:" + s for s in notes.get("summary", set())),
        explanation=(getattr(mod, "EXPLANATION", "") or "T1: obligations generated from the real function sources and discharged by z3/cvc5 (counts in this file); "
                     "T2: bounded run-time contract checking of the real code (evaluations in this file); see DESIGN.md §6 for what each tier covers")
        + ("" if proved_all or total == 0 else f" [this run: {discharged}/{total} T1 obligations discharged, {len(undecided)} undecided items — level reported as 'other']"),
        # the real functions whose source text was interpreted (under /repo or an installed dependency);
        # stand-ins written under /verif (stubs of third-party objects, ghost models) are listed apart: they are assumptions
        functions_under_contract=sorted((d for d in functions.values() if not d["file"].startswith("/verif/")), key=lambda d: (d["file"], d["lines"][0])),
        model_functions=sorted((d for d in functions.values() if d["file"].startswith("/verif/")), key=lambda d: (d["file"], d["lines"][0])),
        lemmas_checked=lemmas_checked, obligations_by_backend=by_backend, conformance_samples=conf_total, conformance_mismatches=conf_bad, solver_seconds=round(solver_s, 2),
        undecided=undecided[:50], bounded_items=sorted(notes.get("bounded", set())),
        assumed=sorted(notes.get("assumed", set())) + sorted(notes.get("assumed-assert", set())) + sorted(notes.get("assumed-precondition", set())),
        opaque=sorted(notes.get("opaque", set())),
        extraction_drops=EXTRACTION_DROPS,
        scenarios=[dict(name=r["scenario"], paths=r["paths"], truncated_paths=r["truncated"], obligations=len(r["obligations"]), wall_s=r["wall_s"]) for r in sres],
        samples=[f"{n}: {s}" for n, s in list(ob_names.items())[:8]],
    )
    if t2 is not None:
        cov.update(evaluations=max(t2["evaluations"], 1), distinct_nontrivial=t2["distinct"], rule=t2["rule"], t2_bound=t2["bound"], t2_samples=t2["samples"], exhaustive=bool(t2["exhaustive"]))
        cov["samples"] = cov["samples"] + [f"bounded: {s}" for s in t2["samples"]]
    else:
        cov.update(evaluations=max(total, 1), distinct_nontrivial=max(total, 0), rule="T1 obligations only")
    if not cov["samples"]:
        cov["samples"] = ["(none)"]
    ev = dict(
        property_id=pid, tier=a.tier if a.tier in ("quick", "thorough") else "quick", seed=seed, level=level, coverage=cov,
        assumptions=ENCODING_ASSUMPTIONS + list(getattr(mod, "ASSUMPTIONS", [])), wall_s=round(wall, 2), violations=len(violations),
    )
    json.dump(ev, open(os.path.join(EVIDENCE_DIR, f"{pid}.json"), "w"), indent=1, default=str)
    if a.update_baseline and not violations:
        save_baseline(pid, [n for n, s in ob_names.items() if s == "proved"], functions)
    # ---- output
    print(f"[{pid}] tier={a.tier} T1: {discharged}/{total} obligations discharged over {len(scen)} scenarios ({by_backend}), solver {solver_s:.1f}s; "
          + (f"T2: {t2['evaluations']} evaluations, {len(t2['failures'])} failures" if t2 else "T2: none") + f"; wall {wall:.1f}s")
    seen_u: dict = {}
    for u in undecided:
        seen_u[u] = seen_u.get(u, 0) + 1
    for u, k in seen_u.items():
        print(f"UNDECIDED property={pid} {u}" + (f" (x{k})" if k > 1 else ""))
    for sname, tb in crashes:
        print(f"CHECKER-CRASH in {sname}:\n{tb}")
    for l in lines:
        print(l)
    for v in violations:
        print(v)
    if violations:
        return 1
    if crashes:
        return 3
    return 0


def _safe(s):
    return "".join(c if c.isalnum() or c in "-_." else "_" for c in s)[:120]


def match_known(kf, kind, name, data):
    for e in kf:
        if e.get("kind", "t1") != kind:
            continue
        if e.get("obligation") and e["obligation"] != name:
            continue
        if e.get("check") and e["check"] != name:
            continue
        m = e.get("match")
        if m and kind == "t2":
            # all listed substrings must occur in the failing input's repr
            s = json.dumps(data, default=str)
            if not all(x in s for x in m):
                continue
        return e
    return None


def load_baseline(pid):
    p = os.path.join(ROOT, "baseline", f"{pid}.json")
    if os.path.exists(p):
        return json.load(open(p))
    return {}


def save_baseline(pid, discharged, functions):
    os.makedirs(os.path.join(ROOT, "baseline"), exist_ok=True)
    json.dump(dict(discharged=sorted(discharged), functions={k: v["sha256"] for k, v in functions.items()}), open(os.path.join(ROOT, "baseline", f"{pid}.json"), "w"), indent=1)


def functions_changed(baseline, functions):
    base = baseline.get("functions", {})
    return sorted(k.split("::")[-1] for k, v in functions.items() if k in base and base[k] != v["sha256"]) + sorted(
        k.split("::")[-1] for k in functions if base and k not in base)


def do_replay(pid, mod, path):
    d = json.load(open(path))
    if "scenario" in d:
        rep = _replay_native((pid, d["scenario"], d["model"]))
        print(json.dumps(rep, indent=1, default=str))
        name = d["obligation"].split("/", 2)[-1]
        if name in rep["failed"]:
            print(f"VIOLATION property={pid} replay={path}")
            return 1
        return 0
    if hasattr(mod, "replay_bounded"):
        ok, detail = mod.replay_bounded(d)
        print(detail)
        if not ok:
            print(f"VIOLATION property={pid} replay={path}")
            return 1
    return 0


if __name__ == "__main__":
    sys.exit(main())
