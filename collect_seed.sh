#!/bin/bash
# usage: collect_seed.sh Cxx [Cyy ...] : copies the deliverables of the seeding sub-agent from its scratch worktree /tmp/seed/Cxx
# into /verif/seeded/Cxx-seed{1,2}/ (patch.diff, demo.py, notes.md, meta.json), removes the worktree and evaluates each seed.
# ROUND=2 collect_seed.sh Cxx : second-round worktree /tmp/seed/Cxxr2, stored as Cxx-seed{3,4}.
cd /verif
R=${ROUND:-1}
for p in "$@"; do
  W=/tmp/seed/$p; [ "$R" != 1 ] && W=/tmp/seed/${p}r$R
  for n in 1 2; do
    [ -f $W/seed$n.diff ] || { echo "$p: seed$n.diff missing"; continue; }
    m=$(( n + 2 * (R - 1) ))
    d=seeded/$p-seed$m; mkdir -p $d
    cp $W/seed$n.diff $d/patch.diff; cp $W/demo$n.py $d/demo.py; cp $W/seed$n.md $d/notes.md 2>/dev/null
    [ -f $d/meta.json ] || echo "{\"property\": \"$p\", \"source\": \"independent sub-agent, given only the property text and a scratch worktree\", \"needs\": \"see notes.md\", \"ran\": \"seed_eval.sh (demo on unchanged + seeded tree, ./check $p --tier quick with PYVC_REPO=<scratch worktree>)\"}" > $d/meta.json
  done
  git -C /repo worktree remove --force $W 2>/dev/null; rm -rf $W
  for n in 1 2; do m=$(( n + 2 * (R - 1) )); [ -d seeded/$p-seed$m ] && ./seed_eval.sh seeded/$p-seed$m; done
done
